//! Known-findings matching, violation reporting, replay files and evidence files.

use crate::panics::glob_match;
use serde_json::{json, Map, Value};
use std::collections::BTreeMap;
use std::path::{Path, PathBuf};

pub fn verif_dir() -> PathBuf {
    std::env::var("VERIF_DIR")
        .map(PathBuf::from)
        .unwrap_or_else(|_| PathBuf::from("/verif"))
}

#[derive(Clone, Debug)]
pub struct Finding {
    pub property: String,
    pub status: String,
    pub key: Map<String, Value>,
    pub what: String,
}

pub fn load_findings() -> Vec<Finding> {
    let p = verif_dir().join("known_findings.json");
    let txt = match std::fs::read_to_string(&p) {
        Ok(t) => t,
        Err(_) => return vec![],
    };
    let v: Value = serde_json::from_str(&txt).expect("known_findings.json must be valid JSON");
    v.as_array()
        .map(|a| {
            a.iter()
                .map(|e| Finding {
                    property: e["property"].as_str().unwrap_or("").to_string(),
                    status: e["status"].as_str().unwrap_or("open").to_string(),
                    key: e["key"].as_object().cloned().unwrap_or_default(),
                    what: e["what"].as_str().unwrap_or("").to_string(),
                })
                .collect()
        })
        .unwrap_or_default()
}

/// An observation's key matches a finding when every field of the finding's key globs the
/// same-named string field of the observation.
pub fn matches(f: &Finding, prop: &str, obs_key: &Value) -> bool {
    if f.property != prop || f.status != "open" {
        return false;
    }
    for (k, pat) in &f.key {
        let pat = match pat.as_str() {
            Some(p) => p,
            None => return false,
        };
        match obs_key.get(k).and_then(|v| v.as_str()) {
            Some(s) if glob_match(pat, s) => {}
            _ => return false,
        }
    }
    true
}

/// One violation group: a key (what failed), how many cases hit it, and the case chosen
/// for the replay file.
#[derive(Clone, Debug)]
pub struct Violation {
    pub key: Value,
    pub count: usize,
    pub replay: Value,
    pub detail: String,
}

pub struct Report {
    pub property: String,
    pub tier: String,
    pub seed: u64,
    pub level: String,
    pub violations: Vec<Violation>,
    pub harness_errors: Vec<String>,
}

pub struct Verdict {
    pub new_violations: usize,
    pub known_hit: Vec<String>,
    pub replay_paths: Vec<String>,
}

fn short_hash(v: &Value) -> String {
    format!("{:x}", md5::compute(serde_json::to_string(v).unwrap().as_bytes()))[..12].to_string()
}

impl Report {
    /// Print KNOWN-FINDING / VIOLATION lines, write replay files, return the verdict.
    pub fn conclude(&self) -> Verdict {
        let herr = crate::orch::harness_errors();
        if !herr.is_empty() {
            // no verdict from a run in which the simulator itself failed
            for e in &herr {
                println!("HARNESS-ERROR: {}", e);
            }
            return Verdict { new_violations: 0, known_hit: vec![], replay_paths: vec![] };
        }
        let findings = load_findings();
        let mut known_hit: BTreeMap<String, usize> = BTreeMap::new();
        let mut new_violations = 0;
        let mut replay_paths = vec![];
        let rdir = verif_dir().join("replays").join(&self.property);
        if let Ok(rd) = std::fs::read_dir(&rdir) {
            for e in rd.flatten() {
                let n = e.file_name().to_string_lossy().to_string();
                if n.starts_with(&format!("{}-", self.tier)) {
                    let _ = std::fs::remove_file(e.path());
                }
            }
        }
        for v in &self.violations {
            if let Some(f) = findings.iter().find(|f| matches(f, &self.property, &v.key)) {
                *known_hit.entry(f.what.clone()).or_insert(0) += v.count;
                continue;
            }
            new_violations += 1;
            let _ = std::fs::create_dir_all(&rdir);
            let name = format!("{}-{}.json", self.tier, short_hash(&v.key));
            let path = rdir.join(name);
            let mut doc = v.replay.clone();
            if let Some(o) = doc.as_object_mut() {
                o.insert("property".into(), json!(self.property));
                o.insert("verif_seed".into(), json!(self.seed));
                o.insert("violation_key".into(), v.key.clone());
                o.insert("detail".into(), json!(v.detail));
                o.insert("cases_hitting_this_key".into(), json!(v.count));
            }
            std::fs::write(&path, serde_json::to_string_pretty(&doc).unwrap()).expect("write replay");
            println!(
                "VIOLATION property={} replay={}",
                self.property,
                path.display()
            );
            println!("  key={} cases={} detail={}", v.key, v.count, v.detail);
            replay_paths.push(path.display().to_string());
        }
        let mut hit_list = vec![];
        for (what, n) in &known_hit {
            println!(
                "KNOWN-FINDING: property={} {} (cases={})",
                self.property, what, n
            );
            hit_list.push(what.clone());
        }
        for e in &self.harness_errors {
            println!("HARNESS-ERROR: {}", e);
        }
        Verdict {
            new_violations,
            known_hit: hit_list,
            replay_paths,
        }
    }
}

pub struct Evidence {
    pub property: String,
    pub tier: String,
    pub seed: u64,
    pub level: String,
    pub evaluations: u64,
    pub distinct_nontrivial: u64,
    pub rule: String,
    pub samples: Vec<Value>,
    pub exhaustive: bool,
    pub extra: Map<String, Value>,
    pub assumptions: Vec<String>,
    pub wall_s: f64,
    pub violations: u64,
}

impl Evidence {
    pub fn write(&self) {
        if !crate::orch::harness_errors().is_empty() {
            // a run without a verdict leaves the previous evidence file alone
            return;
        }
        if std::env::var("VERIF_NO_EVIDENCE").is_ok() {
            // sensitivity runs against a deliberately broken tree (bin/try_mutant, bin/regress_mutants)
            return;
        }
        let mut cov = Map::new();
        cov.insert("evaluations".into(), json!(self.evaluations));
        cov.insert("distinct_nontrivial".into(), json!(self.distinct_nontrivial));
        cov.insert("rule".into(), json!(self.rule));
        cov.insert("samples".into(), json!(self.samples));
        cov.insert("exhaustive".into(), json!(self.exhaustive));
        for (k, v) in &self.extra {
            cov.insert(k.clone(), v.clone());
        }
        let doc = json!({
            "property_id": self.property,
            "tier": self.tier,
            "seed": self.seed,
            "level": self.level,
            "coverage": Value::Object(cov),
            "assumptions": self.assumptions,
            "wall_s": self.wall_s,
            "violations": self.violations,
        });
        let dir = verif_dir().join("evidence");
        let _ = std::fs::create_dir_all(&dir);
        let path = dir.join(format!("{}.json", self.property));
        std::fs::write(&path, serde_json::to_string_pretty(&doc).unwrap()).expect("write evidence");
    }
}

pub fn components() -> Value {
    json!({
        "real": ["hulc (parsers)", "bemodel (model, conversion, indicators, checker)", "hulc2model (lib, bin)", "thor (bin)", "climate", "std::sync::Mutex poisoning", "serde_json", "OS file system for path entry points"],
        "stub_or_simulated": ["choice of which caller thread runs (baton scheduler)", "process entropy and wall clock (LD_PRELOAD shim)", "project directories (written by the simulator)", "stdout device (pipe / memfd)"]
    })
}

pub fn read_replay(path: &Path) -> Value {
    let t = std::fs::read_to_string(path).expect("read replay file");
    serde_json::from_str(&t).expect("replay json")
}

/// Figures of the last `ctesim selftest` (run by bin/setup), copied into evidence files.
pub fn selftest_summary() -> Value {
    let p = verif_dir().join("evidence").join("selftest.json");
    std::fs::read_to_string(p)
        .ok()
        .and_then(|t| serde_json::from_str(&t).ok())
        .unwrap_or_else(|| json!("selftest has not been run (bin/setup runs it)"))
}
