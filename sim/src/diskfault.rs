//! Storage-fault simulator: the stored project file after a lost, repeated, torn or
//! corrupted write.  Edits are addressed by (line, occurrence/token) of the *original*
//! shipped file, so a descriptor is a complete replay recipe.

use crate::corpus::{CorpusFile, FileKind};
use serde::{Deserialize, Serialize};

#[derive(Serialize, Deserialize, Clone, Debug, PartialEq, Eq, Hash, PartialOrd, Ord)]
#[serde(tag = "kind")]
pub enum Edit {
    /// no damage (fault-free configuration)
    Intact,
    DelLine { line: usize },
    DupLine { line: usize },
    /// torn write: the file ends after this line
    TruncAfter { line: usize },
    /// torn write: the file ends in the middle of this line
    TruncMid { line: usize },
    /// the whole block whose header is at `line` is lost
    BlockRemoved { line: usize },
    /// the `occ`-th quoted name on `line` gets a suffix
    RenameQuoted { line: usize, occ: usize },
    /// the `occ`-th quoted name on `line` gets a non-ASCII character in front (byte offsets shift)
    RenameQuotedUnicode { line: usize, occ: usize },
    /// the `from_end`-th character from the end of the `occ`-th quoted name becomes a two-byte
    /// character (code that cuts a fixed number of *bytes* off a name then lands inside it)
    NameCharNonAscii { line: usize, occ: usize, from_end: usize },
    /// a reference renamed to the name of ANOTHER existing definition: `how` = "self" (the name
    /// of the block the line is in) or "next" (the next definition of the same type as the
    /// current target, or - when the current value names nothing, e.g. "Ninguna" - as the block
    /// the line is in). Builds reference cycles and cross links out of valid names.
    RefRetarget { line: usize, occ: usize, how: String },
    /// one delimiter of the line lost: `which` = "quote_first" | "quote_last" | "eq" | "paren_open"
    /// | "paren_close" | "comma" | "semicolon" | "lt" | "gt" (first occurrence unless stated)
    DelimDropped { line: usize, which: String },
    /// the file ends right after the first occurrence of a delimiter on the line (inside a quoted
    /// string, inside a list, after the '=')
    TruncAtDelim { line: usize, which: String },
    /// the `tok`-th numeric token on `line` is replaced by text
    NumToText { line: usize, tok: usize },
    /// the `tok`-th numeric token on `line` is replaced by an out-of-range value
    NumOor { line: usize, tok: usize, val: String },
    /// one character of `line` is changed (low bit flipped, ASCII only)
    ByteFlip { line: usize, col: usize },
    /// the line ending of `line` toggles between LF and CRLF
    CrlfFlipLine { line: usize },
    /// every line ending of the file toggles
    CrlfFlipFile,
    /// synthetic project: one option value replaced by another value the parser knows
    /// (`flags_on`: every XML `NO` leaf is switched to `SI` as well)
    ValueSwap { line: usize, start: usize, end: usize, text: String, flags_on: bool },
    /// generated project: every wall / window / construction block that belongs to the SPACE
    /// whose header is at `line` is removed (the space itself stays)
    SpaceEmptied { line: usize },
    /// generated project: the definition whose header is at `line` and everything it refers to
    /// by name is copied under new names (a subgraph nobody uses), then `inner` damages the
    /// copy (`inner` addresses lines of the text after the copy was inserted)
    CloneDamaged { line: usize, inner: Box<Edit> },
    /// generated project: the definition whose header is at `line` and every reference to it are
    /// renamed consistently to `new_name` (e.g. the name of a catalogue entry)
    RenameEverywhere { line: usize, new_name: String },
    /// generated project: the definition at `line` and all its references are renamed to a name
    /// that differs only in case / blanks (`how`), and an unused copy of it keeps the old name
    NearNamePair { line: usize, how: String },
    /// generated project: the block whose header is at `line` appears twice (repeated write)
    BlockDuplicated { line: usize },
    /// generated project: the `tok`-th number of the line gets more significant digits (x 1.01731,
    /// six decimals): values that do not sit on the two-decimal grid the shipped files use
    NumFine { line: usize, tok: usize },
    /// generated project: the definition at `line` gets a twin (new name, its `attr`-th plain
    /// decimal attribute multiplied by 1.5) and the first reference to the original now names the
    /// twin: two used definitions that differ in exactly one value
    TwinUsed { line: usize, attr: usize },
    /// generated project: a copy of the block at `line` pasted as the first child of ANOTHER
    /// parent (a wall into the next space, a window into the next wall, a space into the next
    /// floor): the same name now exists under two parents
    BlockPastedElsewhere { line: usize },
    /// generated project: every attribute of the block at `line` whose value is the number 0
    /// gets `value` (dormant features - fins, overhangs, setbacks, offsets - switched on, all
    /// with the same size)
    ZerosOn { line: usize, value: String },
    /// C02: definition header renamed (references untouched)
    DefRenamed { line: usize },
    /// C02: definition block removed
    DefRemoved { line: usize },
    /// C02: one reference to a definition renamed (definition untouched)
    RefRenamed { line: usize, occ: usize },
}

impl Edit {
    pub fn kind_name(&self) -> &'static str {
        match self {
            Edit::Intact => "intact",
            Edit::DelLine { .. } => "disk.line_deleted",
            Edit::DupLine { .. } => "disk.line_duplicated",
            Edit::TruncAfter { .. } => "disk.truncated_at_line",
            Edit::TruncMid { .. } => "disk.truncated_mid_line",
            Edit::BlockRemoved { .. } => "disk.block_removed",
            Edit::RenameQuoted { .. } => "disk.name_renamed",
            Edit::RenameQuotedUnicode { .. } => "disk.name_renamed_nonascii",
            Edit::NameCharNonAscii { .. } => "disk.name_char_nonascii",
            Edit::RefRetarget { .. } => "disk.reference_retargeted",
            Edit::DelimDropped { .. } => "disk.delimiter_dropped",
            Edit::TruncAtDelim { .. } => "disk.truncated_at_delimiter",
            Edit::NumToText { .. } => "disk.number_to_text",
            Edit::NumOor { .. } => "disk.number_out_of_range",
            Edit::ByteFlip { .. } => "disk.byte_flip",
            Edit::CrlfFlipLine { .. } | Edit::CrlfFlipFile => "disk.crlf_flip",
            Edit::ValueSwap { .. } => "proj.option_value",
            Edit::SpaceEmptied { .. } => "proj.space_emptied",
            Edit::CloneDamaged { .. } => "proj.unused_copy_damaged",
            Edit::RenameEverywhere { .. } => "proj.renamed_consistently",
            Edit::NearNamePair { .. } => "proj.near_identical_names",
            Edit::BlockDuplicated { .. } => "disk.block_duplicated",
            Edit::ZerosOn { .. } => "proj.zeros_on",
            Edit::BlockPastedElsewhere { .. } => "proj.block_pasted_elsewhere",
            Edit::TwinUsed { .. } => "proj.twin_definition_used",
            Edit::NumFine { .. } => "proj.number_with_more_digits",
            Edit::DefRenamed { .. } => "disk.def_renamed",
            Edit::DefRemoved { .. } => "disk.def_removed",
            Edit::RefRenamed { .. } => "disk.ref_renamed",
        }
    }
    pub fn line(&self) -> Option<usize> {
        match self {
            Edit::Intact | Edit::CrlfFlipFile => None,
            Edit::DelLine { line }
            | Edit::DupLine { line }
            | Edit::TruncAfter { line }
            | Edit::TruncMid { line }
            | Edit::BlockRemoved { line }
            | Edit::RenameQuoted { line, .. }
            | Edit::RenameQuotedUnicode { line, .. }
            | Edit::NameCharNonAscii { line, .. }
            | Edit::RefRetarget { line, .. }
            | Edit::DelimDropped { line, .. }
            | Edit::TruncAtDelim { line, .. }
            | Edit::NumToText { line, .. }
            | Edit::NumOor { line, .. }
            | Edit::ByteFlip { line, .. }
            | Edit::CrlfFlipLine { line }
            | Edit::ValueSwap { line, .. }
            | Edit::SpaceEmptied { line }
            | Edit::CloneDamaged { line, .. }
            | Edit::RenameEverywhere { line, .. }
            | Edit::NearNamePair { line, .. }
            | Edit::BlockDuplicated { line }
            | Edit::ZerosOn { line, .. }
            | Edit::BlockPastedElsewhere { line }
            | Edit::TwinUsed { line, .. }
            | Edit::NumFine { line, .. }
            | Edit::DefRenamed { line }
            | Edit::DefRemoved { line }
            | Edit::RefRenamed { line, .. } => Some(*line),
        }
    }
}

pub const OOR_VALUES: &[&str] = &["-1", "0", "1e30", "99999", "nan", "inf"];
pub const RENAME_SUFFIX: &str = "_VRF";

/// Lines of a text, split on '\n' (a trailing '\r' stays with its line, so CRLF files are
/// re-emitted byte-identically by `join`).
pub fn split_lines(text: &str) -> Vec<&str> {
    text.split('\n').collect()
}

pub fn join(lines: &[&str]) -> String {
    lines.join("\n")
}

#[derive(Clone, Debug)]
pub struct Block {
    pub start: usize,
    pub end: usize,
    pub name: String,
    pub btype: String,
}

/// Name of the block a header line opens (None for any other line).
pub fn header_name(line: &str) -> Option<String> {
    header_of(line).map(|(n, _)| n)
}

fn header_of(line: &str) -> Option<(String, String)> {
    let t = line.trim();
    if !t.starts_with('"') {
        return None;
    }
    let rest = &t[1..];
    let q = rest.find('"')?;
    let name = &rest[..q];
    let after = rest[q + 1..].trim_start();
    let after = after.strip_prefix('=')?.trim();
    if after.is_empty()
        || !after
            .chars()
            .all(|c| c.is_ascii_uppercase() || c == '-' || c.is_ascii_digit())
        || !after.chars().next().unwrap().is_ascii_uppercase()
    {
        return None;
    }
    Some((name.to_string(), after.to_string()))
}

/// BDL blocks: header line `"name" = TYPE` up to the next line that is `..`.
pub fn scan_blocks(lines: &[&str]) -> Vec<Block> {
    let mut out = vec![];
    let mut i = 0;
    while i < lines.len() {
        if let Some((name, btype)) = header_of(lines[i]) {
            let mut j = i + 1;
            let mut found = false;
            while j < lines.len() {
                if lines[j].trim() == ".." {
                    found = true;
                    break;
                }
                if header_of(lines[j]).is_some() {
                    break;
                }
                j += 1;
            }
            if found {
                out.push(Block {
                    start: i,
                    end: j,
                    name,
                    btype,
                });
                i = j + 1;
                continue;
            }
        }
        i += 1;
    }
    out
}

/// tbl "blocks": a quoted name line followed by its values line.
pub fn scan_tbl_blocks(lines: &[&str]) -> Vec<Block> {
    let mut out = vec![];
    for i in 0..lines.len().saturating_sub(1) {
        let t = lines[i].trim();
        if t.starts_with('"') && t.ends_with('"') && t.len() > 1 {
            out.push(Block {
                start: i,
                end: i + 1,
                name: t.trim_matches('"').to_string(),
                btype: "TBL-ELEMENT".into(),
            });
        }
    }
    out
}

/// Byte ranges of quoted strings ("...") on a line; the range covers the content only.
/// separators of one line that get variants (and cells) of their own
pub const MAX_SEP_OCC: usize = 16;
pub const DELIMS: &[&str] = &["quote_first", "quote_last", "eq", "paren_open", "paren_close", "comma", "semicolon", "lt", "gt"];

/// Byte position of the delimiter `which` on the line (all of them are ASCII).
pub fn delim_pos(l: &str, which: &str) -> Option<usize> {
    // "semicolon#k" / "comma#k": the k-th occurrence (0-based) - losing a later separator of a
    // record changes its field count without touching the record type in field 0
    if let Some((base, k)) = which.split_once('#') {
        let c = match base {
            "semicolon" => ';',
            "comma" => ',',
            _ => return None,
        };
        let k: usize = k.parse().ok()?;
        return l.match_indices(c).nth(k).map(|(p, _)| p);
    }
    match which {
        "quote_first" => l.find('"'),
        "quote_last" => {
            let a = l.find('"')?;
            let b = l.rfind('"')?;
            if b > a {
                Some(b)
            } else {
                None
            }
        }
        "eq" => l.find('='),
        "paren_open" => l.find('('),
        "paren_close" => l.rfind(')'),
        "comma" => l.find(','),
        "semicolon" => l.find(';'),
        "lt" => l.find('<'),
        "gt" => l.find('>'),
        _ => None,
    }
}

pub fn quoted_spans(line: &str) -> Vec<(usize, usize)> {
    let mut out = vec![];
    let b = line.as_bytes();
    let mut i = 0;
    while i < b.len() {
        if b[i] == b'"' {
            if let Some(k) = line[i + 1..].find('"') {
                if k > 0 {
                    out.push((i + 1, i + 1 + k));
                }
                i = i + 1 + k + 1;
                continue;
            } else {
                break;
            }
        }
        i += 1;
    }
    out
}

/// Byte ranges of numeric tokens on a line: [-+]?digits[.digits][e[-+]digits], not glued to
/// identifier characters.
pub fn numeric_spans(line: &str) -> Vec<(usize, usize)> {
    let b = line.as_bytes();
    let mut out = vec![];
    let is_ident = |c: u8| c.is_ascii_alphanumeric() || c == b'_' || c >= 0x80;
    let mut i = 0;
    while i < b.len() {
        let c = b[i];
        let starts_num = c.is_ascii_digit()
            || ((c == b'-' || c == b'+' || c == b'.')
                && i + 1 < b.len()
                && b[i + 1].is_ascii_digit());
        if starts_num {
            // previous char must not be identifier-like (or '.' / digit)
            if i > 0 && (is_ident(b[i - 1]) || b[i - 1] == b'.') {
                // skip this run of identifier chars
                i += 1;
                while i < b.len() && (is_ident(b[i]) || b[i] == b'.') {
                    i += 1;
                }
                continue;
            }
            let s = i;
            if b[i] == b'-' || b[i] == b'+' {
                i += 1;
            }
            while i < b.len() && b[i].is_ascii_digit() {
                i += 1;
            }
            if i < b.len() && b[i] == b'.' {
                i += 1;
                while i < b.len() && b[i].is_ascii_digit() {
                    i += 1;
                }
            }
            if i < b.len() && (b[i] == b'e' || b[i] == b'E') {
                let save = i;
                i += 1;
                if i < b.len() && (b[i] == b'-' || b[i] == b'+') {
                    i += 1;
                }
                if i < b.len() && b[i].is_ascii_digit() {
                    while i < b.len() && b[i].is_ascii_digit() {
                        i += 1;
                    }
                } else {
                    i = save;
                }
            }
            // next char must not be identifier-like
            if i < b.len() && is_ident(b[i]) {
                while i < b.len() && (is_ident(b[i]) || b[i] == b'.') {
                    i += 1;
                }
                continue;
            }
            out.push((s, i));
            continue;
        }
        i += 1;
    }
    out
}

fn attr_key(line: &str) -> Option<String> {
    let t = line.trim();
    if t.starts_with('"') || t.starts_with('<') || t.starts_with('$') {
        return None;
    }
    let (k, _) = t.split_once('=')?;
    let k = k.trim();
    if k.is_empty() || k.contains(' ') && !k.chars().all(|c| c.is_ascii_uppercase() || c == '-' || c == ' ' || c == '/' || c.is_ascii_digit()) {
        return None;
    }
    Some(k.to_string())
}

pub fn is_ref_attr(key: &str) -> bool {
    matches!(
        key,
        "CONSTRUCTION"
            | "MATERIAL"
            | "POLYGON"
            | "NEXT-TO"
            | "GAP"
            | "GLASS-TYPE"
            | "NAME-FRAME"
            | "LAYERS"
            | "DAY-SCHEDULES"
            | "WEEK-SCHEDULES"
            | "SPACE-CONDITIONS"
            | "SYSTEM-CONDITIONS"
            | "PREVIOUS"
            | "SPACE"
            | "FLOOR"
    ) || key.ends_with("-SCHEDULE")
        || key.ends_with("-SCH")
        || key.ends_with("-SCHEDULES")
}

pub const DEF_TYPES: &[&str] = &[
    "MATERIAL",
    "LAYERS",
    "CONSTRUCTION",
    "GLASS-TYPE",
    "NAME-FRAME",
    "GAP",
    "POLYGON",
    "FLOOR",
    "SPACE",
    "SPACE-CONDITIONS",
    "SYSTEM-CONDITIONS",
    "DAY-SCHEDULE-PD",
    "WEEK-SCHEDULE-PD",
    "SCHEDULE-PD",
];

pub const POSITIONAL_PARENT_TYPES: &[&str] = &["EXTERIOR-WALL", "INTERIOR-WALL", "UNDERGROUND-WALL", "ROOF"];

/// Per-line annotation used for stratification: (block type or region, attribute key)
#[derive(Clone, Debug, Default)]
pub struct LineInfo {
    pub region: String,
    pub key: String,
    pub is_header: bool,
    /// inside the parenthesised list of a reference attribute that started on an earlier line
    pub ref_attr: bool,
}

pub fn annotate(file: &CorpusFile, lines: &[&str]) -> (Vec<LineInfo>, Vec<Block>) {
    let mut info = vec![LineInfo::default(); lines.len()];
    let blocks = match file.kind {
        FileKind::Ctehexml | FileKind::Cte => scan_blocks(lines),
        FileKind::Tbl => scan_tbl_blocks(lines),
        FileKind::Kyg => vec![],
    };
    let default_region = match file.kind {
        FileKind::Ctehexml => "xml",
        FileKind::Cte => "preamble",
        FileKind::Kyg => "kyg",
        FileKind::Tbl => "tbl",
    };
    for li in info.iter_mut() {
        li.region = default_region.to_string();
    }
    if file.kind == FileKind::Kyg {
        for (i, l) in lines.iter().enumerate() {
            let t = l.trim();
            info[i].key = if t.starts_with("Muro") {
                "Muro"
            } else if t.starts_with("Ventana") {
                "Ventana"
            } else if t.starts_with("PPTT") {
                "PPTT"
            } else if t.starts_with('"') {
                "qsol"
            } else if t.starts_with("Coeficiente K") {
                "K"
            } else if t.starts_with('#') {
                "comment"
            } else if t.is_empty() {
                "blank"
            } else {
                "other"
            }
            .to_string();
        }
    }
    for b in &blocks {
        let mut in_ref_list = false;
        let mut cur_key = String::new();
        for i in b.start..=b.end.min(lines.len() - 1) {
            info[i].region = b.btype.clone();
            if i == b.start {
                info[i].is_header = true;
                info[i].key = "<header>".into();
                continue;
            }
            if file.kind == FileKind::Tbl {
                info[i].key = "values".into();
                continue;
            }
            let t = lines[i].trim();
            if t == ".." {
                info[i].key = "<end>".into();
                continue;
            }
            if in_ref_list {
                info[i].key = cur_key.clone();
                info[i].ref_attr = true;
                if t.ends_with(')') {
                    in_ref_list = false;
                }
                continue;
            }
            if let Some(k) = attr_key(lines[i]) {
                let isref = is_ref_attr(&k);
                info[i].ref_attr = isref;
                let v = t.split_once('=').map(|x| x.1.trim()).unwrap_or("");
                if v.starts_with('(') && !v.ends_with(')') {
                    in_ref_list = isref;
                    cur_key = k.clone();
                    if !isref {
                        // non-reference multi-line list: continuation lines get the key too
                        cur_key = k.clone();
                    }
                }
                info[i].key = k;
            } else {
                info[i].key = "<cont>".into();
            }
        }
    }
    (info, blocks)
}

fn flip_char(c: u8) -> u8 {
    c ^ 0x01
}

/// Apply an edit to the original text.  None when the edit does not apply (out of range).
pub fn apply(text: &str, e: &Edit) -> Option<String> {
    let lines = split_lines(text);
    let n = lines.len();
    let get = |i: usize| -> Option<&str> { lines.get(i).copied() };
    match e {
        Edit::Intact => Some(text.to_string()),
        Edit::DelLine { line } => {
            get(*line)?;
            let mut v = lines.clone();
            v.remove(*line);
            Some(join(&v))
        }
        Edit::DupLine { line } => {
            let l = get(*line)?;
            let mut v = lines.clone();
            v.insert(*line, l);
            Some(join(&v))
        }
        Edit::TruncAfter { line } => {
            if *line + 1 >= n {
                return None;
            }
            Some(join(&lines[..=*line]))
        }
        Edit::DelimDropped { line, which } => {
            let l = get(*line)?;
            let pos = delim_pos(l, which)?;
            let newl = format!("{}{}", &l[..pos], &l[pos + 1..]);
            let mut v = lines.clone();
            v[*line] = &newl;
            Some(join(&v))
        }
        Edit::TruncAtDelim { line, which } => {
            let l = get(*line)?;
            let pos = delim_pos(l, which)?;
            let mut v: Vec<&str> = lines[..*line].to_vec();
            v.push(&l[..=pos]);
            Some(join(&v))
        }
        Edit::TruncMid { line } => {
            let l = get(*line)?;
            let mut cut = l.len() / 2;
            while cut > 0 && !l.is_char_boundary(cut) {
                cut -= 1;
            }
            let mut v: Vec<&str> = lines[..*line].to_vec();
            v.push(&l[..cut]);
            Some(join(&v))
        }
        Edit::BlockRemoved { line } | Edit::DefRemoved { line } => {
            get(*line)?;
            let is_tbl = header_of(lines[*line]).is_none();
            let end = if is_tbl {
                (*line + 1).min(n - 1)
            } else {
                let mut j = *line + 1;
                while j < n && lines[j].trim() != ".." {
                    j += 1;
                }
                if j >= n {
                    return None;
                }
                j
            };
            let mut v: Vec<&str> = lines[..*line].to_vec();
            v.extend_from_slice(&lines[end + 1..]);
            Some(join(&v))
        }
        Edit::RenameQuoted { line, occ } | Edit::RefRenamed { line, occ } => {
            let l = get(*line)?;
            let spans = quoted_spans(l);
            let (_, e_) = *spans.get(*occ)?;
            let newl = format!("{}{}{}", &l[..e_], RENAME_SUFFIX, &l[e_..]);
            let mut v = lines.clone();
            v[*line] = &newl;
            Some(join(&v))
        }
        Edit::RefRetarget { line, occ, how } => {
            let l = get(*line)?;
            if header_of(l).is_some() {
                return None;
            }
            let spans = quoted_spans(l);
            let (s_, e_) = *spans.get(*occ)?;
            let cur = &l[s_..e_];
            let blocks = scan_blocks(&lines);
            let own = blocks.iter().filter(|b| b.start < *line && *line <= b.end).last()?;
            let new_name = if how == "self" {
                own.name.clone()
            } else {
                let ttype = blocks.iter().find(|b| b.name == cur).map(|b| b.btype.clone()).unwrap_or_else(|| own.btype.clone());
                let same: Vec<&Block> = blocks.iter().filter(|b| b.btype == ttype && !b.name.is_empty()).collect();
                if same.is_empty() {
                    return None;
                }
                let pos = same.iter().position(|b| b.name == cur).or_else(|| same.iter().position(|b| b.name == own.name)).unwrap_or(0);
                same[(pos + 1) % same.len()].name.clone()
            };
            if new_name.is_empty() || new_name == cur {
                return None;
            }
            let newl = format!("{}{}{}", &l[..s_], new_name, &l[e_..]);
            let mut v = lines.clone();
            v[*line] = &newl;
            Some(join(&v))
        }
        Edit::RenameQuotedUnicode { line, occ } => {
            let l = get(*line)?;
            let spans = quoted_spans(l);
            let (s_, _) = *spans.get(*occ)?;
            let newl = format!("{}ñ{}", &l[..s_], &l[s_..]);
            let mut v = lines.clone();
            v[*line] = &newl;
            Some(join(&v))
        }
        Edit::NameCharNonAscii { line, occ, from_end } => {
            let l = get(*line)?;
            let spans = quoted_spans(l);
            let (s_, e_) = *spans.get(*occ)?;
            let mut cs: Vec<char> = l[s_..e_].chars().collect();
            if *from_end == 0 || *from_end > cs.len() {
                return None;
            }
            let k = cs.len() - *from_end;
            cs[k] = if cs[k] == 'ñ' { 'ü' } else { 'ñ' };
            let name: String = cs.into_iter().collect();
            let newl = format!("{}{}{}", &l[..s_], name, &l[e_..]);
            let mut v = lines.clone();
            v[*line] = &newl;
            Some(join(&v))
        }
        Edit::DefRenamed { line } => {
            let l = get(*line)?;
            header_of(l)?;
            let spans = quoted_spans(l);
            let (_, e_) = *spans.first()?;
            let newl = format!("{}{}{}", &l[..e_], RENAME_SUFFIX, &l[e_..]);
            let mut v = lines.clone();
            v[*line] = &newl;
            Some(join(&v))
        }
        Edit::NumToText { line, tok } => {
            let l = get(*line)?;
            let spans = numeric_spans(l);
            let (s, e_) = *spans.get(*tok)?;
            let newl = format!("{}abc{}", &l[..s], &l[e_..]);
            let mut v = lines.clone();
            v[*line] = &newl;
            Some(join(&v))
        }
        Edit::NumOor { line, tok, val } => {
            let l = get(*line)?;
            let spans = numeric_spans(l);
            let (s, e_) = *spans.get(*tok)?;
            if &l[s..e_] == val.as_str() {
                return None;
            }
            let newl = format!("{}{}{}", &l[..s], val, &l[e_..]);
            let mut v = lines.clone();
            v[*line] = &newl;
            Some(join(&v))
        }
        Edit::ByteFlip { line, col } => {
            let l = get(*line)?;
            let b = l.as_bytes();
            let c = *b.get(*col)?;
            if !(0x20..0x7f).contains(&c) {
                return None;
            }
            let f = flip_char(c);
            if !(0x20..0x7f).contains(&f) {
                return None;
            }
            let mut nb = b.to_vec();
            nb[*col] = f;
            let newl = String::from_utf8(nb).ok()?;
            let mut v = lines.clone();
            v[*line] = &newl;
            Some(join(&v))
        }
        Edit::CrlfFlipLine { line } => {
            let l = get(*line)?;
            if *line + 1 >= n {
                return None;
            }
            let newl = if let Some(s) = l.strip_suffix('\r') {
                s.to_string()
            } else {
                format!("{}\r", l)
            };
            let mut v = lines.clone();
            v[*line] = &newl;
            Some(join(&v))
        }
        Edit::BlockDuplicated { line } => {
            get(*line)?;
            header_of(lines[*line])?;
            let mut end = *line + 1;
            while end < n && lines[end].trim() != ".." {
                end += 1;
            }
            if end >= n {
                return None;
            }
            let mut v: Vec<&str> = lines[..=end].to_vec();
            v.extend_from_slice(&lines[*line..=end]);
            v.extend_from_slice(&lines[end + 1..]);
            Some(join(&v))
        }
        Edit::NumFine { line, tok } => {
            let l = get(*line)?;
            let sp = numeric_spans(l);
            let (s0, e0) = *sp.get(*tok)?;
            let x: f64 = l[s0..e0].parse().ok()?;
            if !x.is_finite() || x == 0.0 || x.abs() > 1.0e6 || !l[s0..e0].contains('.') {
                return None;
            }
            let newl = format!("{}{:.6}{}", &l[..s0], x * 1.01731, &l[e0..]);
            let mut v = lines.clone();
            v[*line] = &newl;
            Some(join(&v))
        }
        Edit::TwinUsed { line, attr } => {
            get(*line)?;
            let blocks = scan_blocks(&lines);
            let me = blocks.iter().find(|b| b.start == *line)?;
            if me.name.is_empty() {
                return None;
            }
            let twin_name = format!("{} gemelo", me.name);
            if text.contains(&format!("\"{}\"", twin_name)) {
                return None;
            }
            // the attr-th line of the block that holds exactly one plain decimal value
            let cand: Vec<usize> = (me.start + 1..me.end)
                .filter(|i| {
                    let l = lines[*i];
                    let sp = numeric_spans(l);
                    sp.len() == 1 && !l.contains('(') && !l.contains('"') && l[sp[0].0..sp[0].1].parse::<f64>().map(|x| x.is_finite() && x > 0.0 && x < 1.0e6).unwrap_or(false)
                })
                .collect();
            let li = *cand.get(*attr)?;
            // first reference to the original outside its own block (an attribute line, not a header)
            let q = format!("\"{}\"", me.name);
            let ref_line = (0..n).find(|i| (*i < me.start || *i > me.end) && header_of(lines[*i]).is_none() && lines[*i].contains(&q) && lines[*i].contains('='))?;
            let mut out: Vec<String> = vec![];
            for (i, l) in lines.iter().enumerate() {
                if i == ref_line {
                    out.push(l.replacen(&q, &format!("\"{}\"", twin_name), 1));
                } else {
                    out.push(l.to_string());
                }
                if i == me.end {
                    for k in me.start..=me.end {
                        if k == me.start {
                            out.push(lines[k].replacen(&q, &format!("\"{}\"", twin_name), 1));
                        } else if k == li {
                            let sp = numeric_spans(lines[k]);
                            let x: f64 = lines[k][sp[0].0..sp[0].1].parse().ok()?;
                            out.push(format!("{}{}{}", &lines[k][..sp[0].0], ((x * 1.5) * 10000.0).round() / 10000.0, &lines[k][sp[0].1..]));
                        } else if lines[k].trim_start().starts_with("NAME ") && lines[k].contains(&q) {
                            // HULC repeats the name in a NAME attribute
                            out.push(lines[k].replacen(&q, &format!("\"{}\"", twin_name), 1));
                        } else {
                            out.push(lines[k].to_string());
                        }
                    }
                }
            }
            Some(out.join("\n"))
        }
        Edit::BlockPastedElsewhere { line } => {
            get(*line)?;
            let blocks = scan_blocks(&lines);
            let me = blocks.iter().find(|b| b.start == *line)?;
            let walls = ["EXTERIOR-WALL", "INTERIOR-WALL", "UNDERGROUND-WALL", "ROOF"];
            let is_parent = |t: &str| -> bool {
                if walls.contains(&me.btype.as_str()) {
                    t == "SPACE"
                } else if me.btype == "WINDOW" {
                    walls.contains(&t)
                } else if me.btype == "SPACE" {
                    t == "FLOOR"
                } else {
                    false
                }
            };
            let parents: Vec<&Block> = blocks.iter().filter(|b| is_parent(&b.btype)).collect();
            let own = parents.iter().filter(|p| p.start < me.start).last().map(|p| p.start);
            let target = parents.iter().find(|p| p.start > me.start).or_else(|| parents.iter().find(|p| Some(p.start) != own))?;
            if Some(target.start) == own {
                return None;
            }
            let copy: Vec<&str> = lines[me.start..=me.end].to_vec();
            let mut v: Vec<&str> = lines[..=target.end].to_vec();
            v.extend(copy);
            v.extend_from_slice(&lines[target.end + 1..]);
            Some(join(&v))
        }
        Edit::ZerosOn { line, value } => {
            get(*line)?;
            header_of(lines[*line])?;
            let mut end = *line + 1;
            while end < n && lines[end].trim() != ".." {
                end += 1;
            }
            if end >= n {
                return None;
            }
            let mut changed = false;
            let mut out: Vec<String> = lines.iter().map(|s| s.to_string()).collect();
            for i in *line + 1..end {
                if let Some((k, v)) = lines[i].split_once('=') {
                    let vt = v.trim();
                    if !vt.is_empty() && vt.parse::<f64>().map(|x| x == 0.0).unwrap_or(false) {
                        let cr = if lines[i].ends_with('\r') { "\r" } else { "" };
                        out[i] = format!("{}= {}{}", k, value, cr);
                        changed = true;
                    }
                }
            }
            if !changed {
                return None;
            }
            Some(out.join("\n"))
        }
        Edit::NearNamePair { line, how } => {
            let l = get(*line)?;
            let (old, _) = header_of(l)?;
            let nn = crate::engines::procsim::near_name(&old, how)?;
            if text.contains(&format!("\"{}\"", nn)) {
                return None;
            }
            // the block as it is (old name), to be re-inserted as the unused twin
            let mut end = *line + 1;
            while end < n && lines[end].trim() != ".." {
                end += 1;
            }
            if end >= n {
                return None;
            }
            let twin: Vec<String> = lines[*line..=end].iter().map(|s| s.to_string()).collect();
            let renamed = text.replace(&format!("\"{}\"", old), &format!("\"{}\"", nn));
            let rl: Vec<&str> = renamed.split('\n').collect();
            let mut out: Vec<String> = rl[..=end].iter().map(|s| s.to_string()).collect();
            out.extend(twin);
            out.extend(rl[end + 1..].iter().map(|s| s.to_string()));
            Some(out.join("\n"))
        }
        Edit::RenameEverywhere { line, new_name } => {
            let l = get(*line)?;
            let (old, _) = header_of(l)?;
            if old == *new_name || old.is_empty() {
                return None;
            }
            Some(text.replace(&format!("\"{}\"", old), &format!("\"{}\"", new_name)))
        }
        Edit::CloneDamaged { line, inner } => {
            let (t, _) = clone_subgraph(text, *line)?;
            apply(&t, inner)
        }
        Edit::SpaceEmptied { line } => {
            get(*line)?;
            let blocks = scan_blocks(&lines);
            let bi = blocks.iter().position(|b| b.start == *line && b.btype == "SPACE")?;
            let mut drop_ranges: Vec<(usize, usize)> = vec![];
            for b in &blocks[bi + 1..] {
                match b.btype.as_str() {
                    "EXTERIOR-WALL" | "INTERIOR-WALL" | "UNDERGROUND-WALL" | "ROOF" | "WINDOW" | "CONSTRUCTION" | "DOOR" => drop_ranges.push((b.start, b.end)),
                    _ => break,
                }
            }
            if drop_ranges.is_empty() {
                return None;
            }
            let v: Vec<&str> = lines
                .iter()
                .enumerate()
                .filter(|(i, _)| !drop_ranges.iter().any(|(a, b)| i >= a && i <= b))
                .map(|(_, l)| *l)
                .collect();
            Some(join(&v))
        }
        Edit::ValueSwap { line, start, end, text: new, flags_on } => {
            let l = get(*line)?;
            if *end > l.len() || *start > *end || !l.is_char_boundary(*start) || !l.is_char_boundary(*end) {
                return None;
            }
            let newl = format!("{}{}{}", &l[..*start], new, &l[*end..]);
            let mut v = lines.clone();
            v[*line] = &newl;
            let t = join(&v);
            Some(if *flags_on { crate::optvar::flags_on(&t) } else { t })
        }
        Edit::CrlfFlipFile => {
            if text.contains("\r\n") {
                Some(text.replace("\r\n", "\n"))
            } else {
                Some(text.replace('\n', "\r\n"))
            }
        }
    }
}

pub const CLONE_SUFFIX: &str = "_VRFCOPIA";

/// Copy the definition block whose header is at `root_line`, and (recursively) every by-name
/// definition it refers to, under new names; the copies refer to each other, nothing else
/// refers to them.  Returns the new text and the line range of the inserted copies.
pub fn clone_subgraph(text: &str, root_line: usize) -> Option<(String, (usize, usize))> {
    let lines = split_lines(text);
    let blocks = scan_blocks(&lines);
    let root = blocks.iter().position(|b| b.start == root_line)?;
    let by_name = |n: &str| -> Vec<usize> {
        blocks
            .iter()
            .enumerate()
            .filter(|(_, b)| b.name == n && DEF_TYPES.contains(&b.btype.as_str()) && b.btype != "SPACE" && b.btype != "FLOOR" && b.btype != "POLYGON")
            .map(|(i, _)| i)
            .collect()
    };
    let refs_of = |bi: usize| -> Vec<String> {
        let b = &blocks[bi];
        let mut out = vec![];
        let mut in_list = false;
        for i in b.start + 1..b.end {
            let l = lines[i];
            let is_ref = if in_list {
                true
            } else {
                attr_key(l).map(|k| is_ref_attr(&k)).unwrap_or(false)
            };
            let t = l.trim();
            if is_ref {
                let eq = if in_list { 0 } else { l.find('=').unwrap_or(0) };
                for (s_, e_) in quoted_spans(l) {
                    if s_ > eq {
                        out.push(l[s_..e_].to_string());
                    }
                }
                let v = if in_list { t } else { t.split_once('=').map(|x| x.1.trim()).unwrap_or("") };
                if !in_list && v.starts_with('(') && !v.ends_with(')') {
                    in_list = true;
                } else if in_list && t.ends_with(')') {
                    in_list = false;
                }
            }
        }
        out
    };
    // closure of the root under "refers to by name"
    let mut set: Vec<usize> = vec![root];
    let mut names: Vec<String> = vec![blocks[root].name.clone()];
    let mut k = 0;
    while k < set.len() && set.len() < 200 {
        for n in refs_of(set[k]) {
            for bi in by_name(&n) {
                if !set.contains(&bi) {
                    set.push(bi);
                    if !names.contains(&n) {
                        names.push(n.clone());
                    }
                }
            }
        }
        k += 1;
    }
    let mut copies: Vec<String> = vec![];
    let mut sorted = set.clone();
    sorted.sort();
    for bi in sorted {
        let b = &blocks[bi];
        for i in b.start..=b.end {
            let l = lines[i];
            let mut nl = String::new();
            let mut pos = 0;
            for (s_, e_) in quoted_spans(l) {
                nl.push_str(&l[pos..e_]);
                if names.iter().any(|n| n == &l[s_..e_]) {
                    nl.push_str(CLONE_SUFFIX);
                }
                pos = e_;
            }
            nl.push_str(&l[pos..]);
            copies.push(nl);
        }
    }
    let insert_at = blocks[root].end + 1;
    let mut out: Vec<String> = lines[..insert_at].iter().map(|s| s.to_string()).collect();
    let first = out.len();
    out.extend(copies);
    let last = out.len() - 1;
    out.extend(lines[insert_at..].iter().map(|s| s.to_string()));
    Some((out.join("\n"), (first, last)))
}

/// A C19 variant with its stratification cell.
#[derive(Clone, Debug)]
pub struct Variant {
    pub edit: Edit,
    pub cell: String,
}

/// Every single-edit corruption of a file (C19 fault space).  `thorough` adds mid-line
/// truncation, byte flips and CRLF flips.
pub fn enumerate_c19(file: &CorpusFile, thorough: bool) -> Vec<Variant> {
    let lines = split_lines(&file.text);
    let (info, _blocks) = annotate(file, &lines);
    let mut out = vec![];
    let fk = file.kind.as_str();
    // blocks that contain non-ASCII text get cells of their own: byte offsets and character
    // offsets differ there (a classic hazard of hand-written parsers)
    let mut non_ascii_block = vec![false; lines.len()];
    for b in &_blocks {
        let na = (b.start..=b.end.min(lines.len() - 1)).any(|i| !lines[i].is_ascii());
        if na {
            for i in b.start..=b.end.min(lines.len() - 1) {
                non_ascii_block[i] = true;
            }
        }
    }
    for (i, l) in lines.iter().enumerate() {
        let li = &info[i];
        // the lines that open or close a CDATA section delimit the embedded BDL / GT texts: every
        // file gets its own cells for them, so that even the quick tier damages each of them
        let boundary = if file.kind == FileKind::Ctehexml && (l.contains("<![CDATA[") || l.contains("]]>")) { format!("|section boundary|{}", file.rel) } else { String::new() };
        // the first vertex of a polygon: losing it empties the polygon (the reader stops at the
        // first missing Vn), which is a different input class from losing any other vertex; every
        // polygon gets its own cell for it
        let first_vertex = file.kind == FileKind::Ctehexml && li.region == "POLYGON" && li.key == "V1";
        let cellbase = format!("{}|{}|{}{}{}", fk, li.region, li.key, if non_ascii_block[i] { "|non-ascii block" } else { "" }, boundary);
        let blank = l.trim().is_empty();
        let mut push = |e: Edit| {
            let cell = match &e {
                Edit::NumOor { val, .. } => format!("{}|{}={}", cellbase, e.kind_name(), val),
                Edit::DelimDropped { which, .. } | Edit::TruncAtDelim { which, .. } => format!("{}|{}:{}", cellbase, e.kind_name(), which),
                Edit::NameCharNonAscii { occ, from_end, .. } => {
                    // special cases in the readers are keyed by how a name starts: one cell per
                    // first word of the damaged name
                    let (a, b) = quoted_spans(l)[*occ];
                    let w: String = l[a..b].chars().take_while(|c| c.is_alphabetic()).take(6).collect::<String>().to_lowercase();
                    format!("{}|{}|{}:{}|{}", fk, li.region, e.kind_name(), from_end, w)
                }
                Edit::DelLine { .. } if first_vertex => format!("{}|{}|first vertex|{}|{}", cellbase, e.kind_name(), file.rel, i),
                _ => format!("{}|{}", cellbase, e.kind_name()),
            };
            out.push(Variant { edit: e, cell });
        };
        if !blank {
            push(Edit::DelLine { line: i });
            push(Edit::DupLine { line: i });
        }
        if i + 1 < lines.len() && !blank {
            push(Edit::TruncAfter { line: i });
        }
        if li.is_header {
            push(Edit::BlockRemoved { line: i });
            if header_of(l).is_some() {
                push(Edit::BlockDuplicated { line: i });
            }
        }
        for (occ, _) in quoted_spans(l).iter().enumerate() {
            push(Edit::RenameQuoted { line: i, occ });
            push(Edit::RenameQuotedUnicode { line: i, occ });
            if li.region != "xml" {
                for from_end in 1..=6 {
                    push(Edit::NameCharNonAscii { line: i, occ, from_end });
                }
            }
            if !li.is_header && header_of(l).is_none() && li.region != "xml" {
                for how in ["self", "next"] {
                    push(Edit::RefRetarget { line: i, occ, how: how.to_string() });
                }
            }
        }
        let mut whiches: Vec<String> = DELIMS.iter().map(|w| w.to_string()).collect();
        // every further separator of a record (the first one is "semicolon" / "comma" above)
        for (name, c) in [("semicolon", ';'), ("comma", ',')] {
            for k in 1..l.matches(c).count().min(MAX_SEP_OCC) {
                whiches.push(format!("{}#{}", name, k));
            }
        }
        for which in &whiches {
            if delim_pos(l, which).is_some() {
                push(Edit::DelimDropped { line: i, which: which.to_string() });
                if i + 1 < lines.len() || delim_pos(l, which).map(|p| p + 1 < l.len()).unwrap_or(false) {
                    push(Edit::TruncAtDelim { line: i, which: which.to_string() });
                }
            }
        }
        for (tok, _) in numeric_spans(l).iter().enumerate() {
            push(Edit::NumToText { line: i, tok });
            for v in OOR_VALUES {
                push(Edit::NumOor {
                    line: i,
                    tok,
                    val: v.to_string(),
                });
            }
        }
        if thorough && !blank {
            if l.len() >= 2 {
                push(Edit::TruncMid { line: i });
            }
            // one byte flip per line: the column is a pure function of the line number
            let b = l.as_bytes();
            if !b.is_empty() {
                let start = (i.wrapping_mul(2654435761)) % b.len();
                for k in 0..b.len() {
                    let col = (start + k) % b.len();
                    let c = b[col];
                    if (0x21..0x7f).contains(&c) && (0x20..0x7f).contains(&(c ^ 1)) {
                        push(Edit::ByteFlip { line: i, col });
                        break;
                    }
                }
            }
            if i + 1 < lines.len() {
                push(Edit::CrlfFlipLine { line: i });
            }
            // record-type and separator bytes of the small line-oriented side files
            if file.kind == FileKind::Kyg || file.kind == FileKind::Tbl {
                let mut cols: Vec<usize> = vec![0];
                cols.extend(
                    b.iter()
                        .enumerate()
                        .filter(|(_, c)| **c == b';' || **c == b'"')
                        .map(|(k, _)| k)
                        .take(3),
                );
                cols.dedup();
                for col in cols {
                    if col >= b.len() {
                        continue;
                    }
                    let c = b[col];
                    if (0x21..0x7f).contains(&c) && (0x20..0x7f).contains(&(c ^ 1)) {
                        let cell = format!("{}|disk.byte_flip@{}", cellbase, if col == 0 { "first" } else { "separator" });
                        out.push(Variant { edit: Edit::ByteFlip { line: i, col }, cell });
                    }
                }
            }
        }
    }
    if thorough {
        out.push(Variant {
            edit: Edit::CrlfFlipFile,
            cell: format!("{}|file|crlf", fk),
        });
    }
    out
}

/// C02 fault space: every definition block renamed / removed, every reference renamed.
pub fn enumerate_c02(file: &CorpusFile) -> Vec<Variant> {
    let lines = split_lines(&file.text);
    let (info, blocks) = annotate(file, &lines);
    let fk = file.kind.as_str();
    let mut out = vec![];
    for b in &blocks {
        if DEF_TYPES.contains(&b.btype.as_str()) {
            out.push(Variant {
                edit: Edit::DefRenamed { line: b.start },
                cell: format!("{}|{}|def_renamed", fk, b.btype),
            });
            out.push(Variant {
                edit: Edit::DefRemoved { line: b.start },
                cell: format!("{}|{}|def_removed", fk, b.btype),
            });
        } else if POSITIONAL_PARENT_TYPES.contains(&b.btype.as_str()) {
            // walls are referred to by their windows (by position in the file): losing the
            // wall definition leaves the windows that follow without their own wall
            out.push(Variant {
                edit: Edit::DefRemoved { line: b.start },
                cell: format!("{}|{}|def_removed", fk, b.btype),
            });
        }
    }
    for (i, l) in lines.iter().enumerate() {
        let li = &info[i];
        if li.ref_attr && !li.is_header {
            // quoted names after the '=' (or on continuation lines)
            let eq = if li.key != "<cont>" && l.contains('=') && attr_key(l).is_some() {
                l.find('=').unwrap_or(0)
            } else {
                0
            };
            for (occ, (s, _)) in quoted_spans(l).iter().enumerate() {
                if *s > eq {
                    out.push(Variant {
                        edit: Edit::RefRenamed { line: i, occ },
                        cell: format!("{}|{}.{}|ref_renamed", fk, li.region, li.key),
                    });
                }
            }
        }
    }
    out
}

#[cfg(test)]
mod tests {
    use super::*;
    #[test]
    fn nums() {
        let l = "    V1   =( 14.97, -11.39 )";
        let s = numeric_spans(l);
        assert_eq!(s.iter().map(|(a, b)| &l[*a..*b]).collect::<Vec<_>>(), vec!["14.97", "-11.39"]);
        assert!(numeric_spans("A-1 x").is_empty());
        let l2 = "X = 1e30 P01_E01 3abc 4";
        let s2 = numeric_spans(l2);
        assert_eq!(s2.iter().map(|(a, b)| &l2[*a..*b]).collect::<Vec<_>>(), vec!["1e30", "4"]);
    }
    #[test]
    fn blocks() {
        let t = "\"a\" = POLYGON\n V1 = (1,2)\n ..\n\"b\" = SPACE\n POLYGON = \"a\"\n ..\n";
        let lines = split_lines(t);
        let b = scan_blocks(&lines);
        assert_eq!(b.len(), 2);
        assert_eq!(join(&lines), t);
        let e = apply(t, &Edit::DefRemoved { line: 0 }).unwrap();
        assert!(e.starts_with("\"b\""));
        let r = apply(t, &Edit::RefRenamed { line: 4, occ: 0 }).unwrap();
        assert!(r.contains("\"a_VRF\""));
    }
}
