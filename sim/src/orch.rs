//! Orchestrator side: runs job descriptors in worker processes.  One worker process is one
//! simulated OS process of the system under test.  A worker that dies is an observation
//! (the job in flight is known from the S/R records in its output file).

use serde_json::Value;
use std::collections::BTreeMap;
use std::io::Write;
use std::os::unix::process::CommandExt;
use std::path::{Path, PathBuf};
use std::process::{Command, Stdio};
use std::sync::{Arc, Mutex};
use std::time::{Duration, Instant};

#[derive(Clone, Debug)]
pub struct Chunk {
    pub env: Vec<(String, String)>,
    pub jobs: Vec<(usize, Value)>,
}

#[derive(Clone, Debug)]
pub struct RunOpts {
    pub engine: String,
    pub workers: usize,
    pub job_timeout_ms: u64,
    pub mem_mb: u64,
    pub use_shim: bool,
}

#[derive(Clone, Debug)]
pub enum Outcome {
    Result(Value),
    /// the worker process died while this job was in flight
    Abort { status: String, stderr_tail: String },
    /// the in-worker watchdog (or the orchestrator backstop) ended the job
    Timeout,
}

pub struct Scratch {
    pub dir: PathBuf,
}

impl Scratch {
    pub fn new(tag: &str) -> Scratch {
        let base = if Path::new("/dev/shm").is_dir() {
            PathBuf::from("/dev/shm")
        } else {
            let p = PathBuf::from("/verif/work");
            let _ = std::fs::create_dir_all(&p);
            p
        };
        // remove scratch left behind by simulator processes that were killed
        if let Ok(rd) = std::fs::read_dir(&base) {
            for e in rd.flatten() {
                let n = e.file_name().to_string_lossy().to_string();
                if n.starts_with("ctesim.") {
                    if let Some(pid) = n.rsplit('.').next().and_then(|p| p.parse::<u32>().ok()) {
                        if !Path::new(&format!("/proc/{}", pid)).exists() {
                            let _ = std::fs::remove_dir_all(e.path());
                            let _ = std::fs::remove_file(e.path());
                        }
                    }
                }
            }
        }
        let dir = base.join(format!("ctesim.{}.{}", tag, std::process::id()));
        let _ = std::fs::remove_dir_all(&dir);
        std::fs::create_dir_all(&dir).expect("create scratch dir");
        Scratch { dir }
    }
}

impl Drop for Scratch {
    fn drop(&mut self) {
        if let Some(parent) = self.dir.parent() {
            let _ = std::fs::remove_file(parent.join(format!("ctesim.fncache.{}", std::process::id())));
        }
        let _ = std::fs::remove_dir_all(&self.dir);
    }
}

pub fn shim_path() -> PathBuf {
    let exe = std::env::current_exe().unwrap_or_default();
    // /verif/sim/target/debug/ctesim -> /verif/shim/libverifshim.so
    let verif = std::env::var("VERIF_DIR").map(PathBuf::from).unwrap_or_else(|_| {
        exe.ancestors()
            .nth(4)
            .map(|p| p.to_path_buf())
            .unwrap_or_else(|| PathBuf::from("/verif"))
    });
    verif.join("shim/libverifshim.so")
}

pub fn n_workers() -> usize {
    std::env::var("VERIF_WORKERS")
        .ok()
        .and_then(|s| s.parse().ok())
        .unwrap_or_else(|| {
            std::thread::available_parallelism()
                .map(|n| n.get())
                .unwrap_or(4)
                .min(16)
        })
}

fn tail(path: &Path, n: usize) -> String {
    let s = std::fs::read(path).unwrap_or_default();
    let s = String::from_utf8_lossy(&s);
    let lines: Vec<&str> = s.lines().collect();
    let start = lines.len().saturating_sub(n);
    lines[start..].join("\n")
}

struct WorkerRun {
    results: BTreeMap<usize, Value>,
    tainted_after: Option<usize>,
    in_flight: Option<usize>,
    timed_out: Option<usize>,
    status: String,
    stderr_tail: String,
}

fn run_worker(
    opts: &RunOpts,
    env: &[(String, String)],
    jobs: &[(usize, Value)],
    scratch: &Path,
    tag: &str,
) -> WorkerRun {
    let jobs_path = scratch.join(format!("{}.jobs", tag));
    let out_path = scratch.join(format!("{}.out", tag));
    let err_path = scratch.join(format!("{}.err", tag));
    let wdir = scratch.join(format!("{}.d", tag));
    let _ = std::fs::remove_dir_all(&wdir);
    std::fs::create_dir_all(&wdir).expect("worker dir");
    {
        let mut f = std::io::BufWriter::new(std::fs::File::create(&jobs_path).expect("jobs file"));
        for (idx, j) in jobs {
            writeln!(f, "{} {}", idx, serde_json::to_string(j).unwrap()).unwrap();
        }
    }
    let _ = std::fs::remove_file(&out_path);
    let mut exe = std::env::current_exe().expect("current exe");
    if std::env::var("CTESIM_TEST_SPAWN_FAIL").is_ok() {
        // selftest of the harness-error path
        exe = std::path::PathBuf::from("/nonexistent/ctesim");
    }
    let mut cmd = Command::new(exe);
    cmd.arg("worker")
        .arg("--engine")
        .arg(&opts.engine)
        .arg("--jobs")
        .arg(&jobs_path)
        .arg("--out")
        .arg(&out_path)
        .arg("--scratch")
        .arg(&wdir)
        .arg("--timeout-ms")
        .arg(opts.job_timeout_ms.to_string())
        .stdin(Stdio::null())
        .stdout(Stdio::null())
        .stderr(Stdio::from(std::fs::File::create(&err_path).expect("err file")));
    cmd.env_remove("RUST_LOG");
    cmd.env("RUST_BACKTRACE", "0");
    if let Some(parent) = scratch.parent() {
        cmd.env("CTESIM_FNCACHE", parent.join(format!("ctesim.fncache.{}", std::process::id())));
    }
    if opts.use_shim {
        let sp = shim_path();
        if sp.exists() {
            cmd.env("LD_PRELOAD", sp);
        }
    }
    for (k, v) in env {
        cmd.env(k, v);
    }
    let mem = opts.mem_mb;
    // proc.cpu_count: the simulated process may see 1, 2, 5 or all CPUs (what
    // available_parallelism reports follows the affinity mask)
    let cpus: usize = env.iter().find(|(k, _)| k == "VERIF_CPUS").and_then(|(_, v)| v.parse().ok()).unwrap_or(0);
    unsafe {
        cmd.pre_exec(move || {
            if cpus > 0 {
                let mut set: libc::cpu_set_t = std::mem::zeroed();
                libc::CPU_ZERO(&mut set);
                for c in 0..cpus {
                    libc::CPU_SET(c, &mut set);
                }
                libc::sched_setaffinity(0, std::mem::size_of::<libc::cpu_set_t>(), &set);
            }
            if mem > 0 {
                let lim = libc::rlimit {
                    rlim_cur: mem * 1024 * 1024,
                    rlim_max: mem * 1024 * 1024,
                };
                libc::setrlimit(libc::RLIMIT_AS, &lim);
            }
            Ok(())
        });
    }
    let mut child = {
        let mut tries = 0;
        loop {
            match cmd.spawn() {
                Ok(c) => break c,
                Err(e) => {
                    tries += 1;
                    if tries >= 6 {
                        note_harness_error(&format!("worker could not be started: {}", e));
                        let _ = std::fs::remove_file(&jobs_path);
                        let _ = std::fs::remove_file(&out_path);
                        let _ = std::fs::remove_file(&err_path);
                        let _ = std::fs::remove_dir_all(&wdir);
                        return WorkerRun {
                            results: BTreeMap::new(),
                            tainted_after: None,
                            in_flight: None,
                            timed_out: None,
                            status: format!("HARNESS: spawn failed: {}", e),
                            stderr_tail: String::new(),
                        };
                    }
                    std::thread::sleep(Duration::from_millis(200));
                }
            }
        }
    };
    // backstop: the worker's own watchdog should fire first
    let backstop = Duration::from_millis(opts.job_timeout_ms * 8 * (jobs.len() as u64 + 2) + 60_000);
    let t0 = Instant::now();
    let status;
    let mut killed = false;
    loop {
        match child.try_wait() {
            Ok(Some(st)) => {
                status = format!("{}", st);
                break;
            }
            Ok(None) => {
                if t0.elapsed() > backstop {
                    let _ = child.kill();
                    let st = child.wait().ok();
                    status = format!("killed by orchestrator backstop ({:?})", st);
                    killed = true;
                    break;
                }
                std::thread::sleep(Duration::from_millis(2));
            }
            Err(e) => {
                status = format!("wait error {}", e);
                break;
            }
        }
    }
    let mut run = WorkerRun {
        results: BTreeMap::new(),
        tainted_after: None,
        in_flight: None,
        timed_out: None,
        status,
        stderr_tail: tail(&err_path, 12),
    };
    let out = std::fs::read_to_string(&out_path).unwrap_or_default();
    let mut started: Option<usize> = None;
    for line in out.lines() {
        let mut it = line.splitn(3, ' ');
        let tagc = it.next().unwrap_or("");
        let idx: usize = match it.next().and_then(|s| s.parse().ok()) {
            Some(i) => i,
            None => continue,
        };
        match tagc {
            "S" => started = Some(idx),
            "R" => {
                if let Some(js) = it.next() {
                    if let Ok(v) = serde_json::from_str::<Value>(js) {
                        run.results.insert(idx, v);
                        if started == Some(idx) {
                            started = None;
                        }
                    }
                }
            }
            "X" => run.tainted_after = Some(idx),
            "T" => {
                run.timed_out = Some(idx);
                if started == Some(idx) {
                    started = None;
                }
            }
            _ => {}
        }
    }
    if let Some(s) = started {
        if killed {
            run.timed_out = Some(s);
        } else {
            run.in_flight = Some(s);
        }
    }
    let _ = std::fs::remove_file(&jobs_path);
    let _ = std::fs::remove_file(&out_path);
    let _ = std::fs::remove_file(&err_path);
    let _ = std::fs::remove_dir_all(&wdir);
    run
}

static CONFIRMED_TIMEOUTS: std::sync::atomic::AtomicUsize = std::sync::atomic::AtomicUsize::new(0);
static HARNESS_ERRORS: Mutex<Vec<(String, u64)>> = Mutex::new(Vec::new());

/// Something went wrong in the simulator itself (a worker could not be started, a job was lost):
/// the check must end with exit status 2, never with a verdict.
pub fn note_harness_error(msg: &str) {
    let mut h = HARNESS_ERRORS.lock().unwrap();
    if let Some(e) = h.iter_mut().find(|e| e.0 == msg) {
        e.1 += 1;
    } else if h.len() < 40 {
        h.push((msg.to_string(), 1));
    }
}

pub fn harness_errors() -> Vec<String> {
    HARNESS_ERRORS.lock().unwrap().iter().map(|(m, n)| format!("{} (x{})", m, n)).collect()
}

/// Run all chunks; returns one outcome per job index.
pub fn run_chunks(chunks: Vec<Chunk>, opts: &RunOpts, scratch: &Path) -> BTreeMap<usize, Outcome> {
    let total_chunks = chunks.len();
    let done_chunks = Arc::new(std::sync::atomic::AtomicUsize::new(0));
    let t_start = Instant::now();
    let queue = Arc::new(Mutex::new(
        chunks.into_iter().enumerate().rev().collect::<Vec<_>>(),
    ));
    let results = Arc::new(Mutex::new(BTreeMap::new()));
    let mut handles = vec![];
    for w in 0..opts.workers.max(1) {
        let queue = queue.clone();
        let results = results.clone();
        let opts = opts.clone();
        let scratch = scratch.to_path_buf();
        let done_chunks = done_chunks.clone();
        handles.push(std::thread::spawn(move || loop {
            // once the simulator itself has failed there is no verdict to be had: stop dispatching
            if !HARNESS_ERRORS.lock().unwrap().is_empty() {
                break;
            }
            let next = queue.lock().unwrap().pop();
            let (ci, chunk) = match next {
                Some(c) => c,
                None => break,
            };
            // progress on stderr for long campaigns (never on stdout, never a decision input)
            let d = done_chunks.fetch_add(1, std::sync::atomic::Ordering::SeqCst);
            if total_chunks >= 400 && d > 0 && d % (total_chunks / 20).max(1) == 0 {
                eprintln!("[ctesim] {}/{} chunks dispatched, {:.0}s", d, total_chunks, t_start.elapsed().as_secs_f64());
            }
            let mut remaining: Vec<(usize, Value)> = chunk.jobs.clone();
            let mut attempt = 0;
            let mut timed_out_once: Vec<usize> = vec![];
            while !remaining.is_empty() {
                attempt += 1;
                let tag = format!("w{}c{}a{}", w, ci, attempt);
                let run = run_worker(&opts, &chunk.env, &remaining, &scratch, &tag);
                let mut res = results.lock().unwrap();
                let mut done: Vec<usize> = vec![];
                let mut progressed = false;
                for (idx, v) in run.results {
                    res.insert(idx, Outcome::Result(v));
                    done.push(idx);
                }
                if let Some(t) = run.timed_out {
                    // a time-out is only believed when a second attempt, first job of a fresh
                    // worker process, runs into the limit again
                    // (once several time-outs have been confirmed in this run the machine is
                    // not the cause, and further ones are taken at the first attempt)
                    if timed_out_once.contains(&t) || CONFIRMED_TIMEOUTS.load(std::sync::atomic::Ordering::SeqCst) >= 6 {
                        CONFIRMED_TIMEOUTS.fetch_add(1, std::sync::atomic::Ordering::SeqCst);
                        res.insert(t, Outcome::Timeout);
                        done.push(t);
                    } else {
                        timed_out_once.push(t);
                        progressed = true;
                    }
                }
                if let Some(f) = run.in_flight {
                    res.insert(
                        f,
                        Outcome::Abort {
                            status: run.status.clone(),
                            stderr_tail: run.stderr_tail.clone(),
                        },
                    );
                    done.push(f);
                }
                drop(res);
                let before = remaining.len();
                remaining.retain(|(i, _)| !done.contains(i));
                if remaining.len() == before && !progressed {
                    // the worker made no progress at all (could not even start): harness error
                    note_harness_error(&format!("worker made no progress: {} | {}", run.status, run.stderr_tail));
                    let mut res = results.lock().unwrap();
                    for (i, _) in &remaining {
                        res.insert(
                            *i,
                            Outcome::Abort {
                                status: format!("worker made no progress: {}", run.status),
                                stderr_tail: run.stderr_tail.clone(),
                            },
                        );
                    }
                    remaining.clear();
                }
            }
        }));
    }
    for h in handles {
        if h.join().is_err() {
            note_harness_error("an orchestrator thread panicked");
        }
    }
    Arc::try_unwrap(results).unwrap().into_inner().unwrap()
}

/// Split a flat job list into chunks of `size` sharing one environment.
pub fn chunked(jobs: Vec<(usize, Value)>, size: usize, env: Vec<(String, String)>) -> Vec<Chunk> {
    let mut out = vec![];
    let mut cur = vec![];
    for j in jobs {
        cur.push(j);
        if cur.len() >= size {
            out.push(Chunk {
                env: env.clone(),
                jobs: std::mem::take(&mut cur),
            });
        }
    }
    if !cur.is_empty() {
        out.push(Chunk { env, jobs: cur });
    }
    out
}
