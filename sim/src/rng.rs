//! The one source of randomness of the simulator: splitmix64 for seed derivation and
//! xoshiro256** for streams. Nothing else in the harness may draw entropy or read a clock
//! to make a decision.

#[inline]
pub fn splitmix64(state: &mut u64) -> u64 {
    *state = state.wrapping_add(0x9E37_79B9_7F4A_7C15);
    let mut z = *state;
    z = (z ^ (z >> 30)).wrapping_mul(0xBF58_476D_1CE4_E5B9);
    z = (z ^ (z >> 27)).wrapping_mul(0x94D0_49BB_1331_11EB);
    z ^ (z >> 31)
}

/// Derive a child seed from a parent seed, a label and an index.  A case is reproducible
/// alone and independent of the number of workers because its seed depends only on these.
pub fn derive(parent: u64, label: &str, idx: u64) -> u64 {
    let mut s = parent ^ 0xA076_1D64_78BD_642F;
    for b in label.bytes() {
        s = s.wrapping_mul(0x100_0000_01B3) ^ (b as u64);
        splitmix64(&mut s);
    }
    s ^= idx.wrapping_mul(0xD6E8_FEB8_6659_FD93);
    splitmix64(&mut s)
}

#[derive(Clone, Debug)]
pub struct Rng {
    s: [u64; 4],
}

impl Rng {
    pub fn new(seed: u64) -> Self {
        let mut sm = seed;
        let s = [
            splitmix64(&mut sm),
            splitmix64(&mut sm),
            splitmix64(&mut sm),
            splitmix64(&mut sm),
        ];
        Rng { s }
    }
    #[inline]
    pub fn next_u64(&mut self) -> u64 {
        let result = self.s[1].wrapping_mul(5).rotate_left(7).wrapping_mul(9);
        let t = self.s[1] << 17;
        self.s[2] ^= self.s[0];
        self.s[3] ^= self.s[1];
        self.s[1] ^= self.s[2];
        self.s[0] ^= self.s[3];
        self.s[2] ^= t;
        self.s[3] = self.s[3].rotate_left(45);
        result
    }
    /// Uniform in [0, n). n must be > 0.
    #[inline]
    pub fn below(&mut self, n: usize) -> usize {
        debug_assert!(n > 0);
        (((self.next_u64() >> 11) as u128 * n as u128) >> 53) as usize
    }
    pub fn range(&mut self, lo: usize, hi_incl: usize) -> usize {
        lo + self.below(hi_incl - lo + 1)
    }
    pub fn chance(&mut self, num: u32, den: u32) -> bool {
        (self.below(den as usize) as u32) < num
    }
    pub fn f64(&mut self) -> f64 {
        (self.next_u64() >> 11) as f64 / (1u64 << 53) as f64
    }
    pub fn pick<'a, T>(&mut self, v: &'a [T]) -> &'a T {
        &v[self.below(v.len())]
    }
    pub fn shuffle<T>(&mut self, v: &mut [T]) {
        for i in (1..v.len()).rev() {
            let j = self.below(i + 1);
            v.swap(i, j);
        }
    }
}
