//! Option variation: synthetic projects obtained from a shipped one by replacing the value
//! of one option (an XML leaf, a ';'-separated field of it, a BDL attribute value) by
//! another value the parser knows about.  The alternatives come from a dictionary built at
//! run time from the string literals of the parser sources: a literal is an alternative for
//! a value when both occur within a few lines of each other in the same source file (the
//! arms of one `match`).  Optionally every XML `NO` flag is switched to `SI` as well, so
//! sections that are disabled in all shipped projects get exercised.

use crate::panics::repo_root;
use std::collections::{BTreeMap, BTreeSet};
use std::path::Path;

pub struct Dictionary {
    /// literal -> (file index, line)
    occ: BTreeMap<String, Vec<(usize, usize)>>,
}

fn literals_of_line(l: &str) -> Vec<String> {
    let mut out = vec![];
    let b = l.as_bytes();
    let mut i = 0;
    while i < b.len() {
        if b[i] == b'"' {
            let mut j = i + 1;
            let mut s = Vec::new();
            while j < b.len() && b[j] != b'"' {
                if b[j] == b'\\' {
                    j += 1;
                }
                if j < b.len() {
                    s.push(b[j]);
                }
                j += 1;
            }
            if let Ok(t) = String::from_utf8(s) {
                if !t.is_empty() && t.len() <= 40 && !t.contains('{') && !t.contains('\n') {
                    out.push(t);
                }
            }
            i = j + 1;
        } else {
            i += 1;
        }
    }
    out
}

fn rs_files(dir: &Path, out: &mut Vec<std::path::PathBuf>) {
    if let Ok(rd) = std::fs::read_dir(dir) {
        let mut v: Vec<_> = rd.flatten().map(|e| e.path()).collect();
        v.sort();
        for p in v {
            if p.is_dir() {
                rs_files(&p, out);
            } else if p.extension().map(|e| e == "rs").unwrap_or(false) {
                out.push(p);
            }
        }
    }
}

impl Dictionary {
    pub fn build() -> Dictionary {
        let mut files = vec![];
        rs_files(&Path::new(&repo_root()).join("hulc/src"), &mut files);
        rs_files(&Path::new(&repo_root()).join("bemodel/src/convert"), &mut files);
        let mut occ: BTreeMap<String, Vec<(usize, usize)>> = BTreeMap::new();
        for (fi, f) in files.iter().enumerate() {
            if let Ok(t) = std::fs::read_to_string(f) {
                for (li, l) in t.lines().enumerate() {
                    let code = l.trim_start();
                    if code.starts_with("//") {
                        continue;
                    }
                    for lit in literals_of_line(l) {
                        occ.entry(lit).or_default().push((fi, li));
                    }
                }
            }
        }
        Dictionary { occ }
    }

    pub fn alternatives(&self, v: &str) -> Vec<String> {
        let mut out = BTreeSet::new();
        if let Some(mine) = self.occ.get(v) {
            for (lit, occs) in &self.occ {
                if lit == v {
                    continue;
                }
                if occs
                    .iter()
                    .any(|(f, l)| mine.iter().any(|(f2, l2)| f == f2 && (*l as i64 - *l2 as i64).abs() <= 40))
                {
                    out.insert(lit.clone());
                }
            }
        }
        out.into_iter().collect()
    }
}

#[derive(Clone, Debug)]
pub struct Slot {
    pub line: usize,
    pub start: usize,
    pub end: usize,
    pub value: String,
    pub tag: String,
}

/// Option slots of a .ctehexml text.
pub fn slots(text: &str) -> Vec<Slot> {
    let mut out = vec![];
    for (li, l) in text.split('\n').enumerate() {
        let t = l.trim_end_matches('\r');
        // <tag>text</tag> on one line
        if let (Some(a), Some(b)) = (t.find('>'), t.rfind("</")) {
            if a < b && t.trim_start().starts_with('<') && !t[a + 1..b].contains('<') {
                let tag = t.trim_start()[1..].split(|c| c == '>' || c == ' ').next().unwrap_or("").to_string();
                let inner = &t[a + 1..b];
                let mut pos = a + 1;
                for field in inner.split(';') {
                    let tr = field.trim();
                    if !tr.is_empty() && tr.len() <= 40 {
                        let off = field.find(tr).unwrap_or(0);
                        out.push(Slot { line: li, start: pos + off, end: pos + off + tr.len(), value: tr.to_string(), tag: tag.clone() });
                    }
                    pos += field.len() + 1;
                }
                continue;
            }
        }
        // KEY = VALUE of the BDL part
        if let Some(eq) = t.find('=') {
            let key = t[..eq].trim();
            let val = t[eq + 1..].trim();
            if !key.is_empty() && !key.starts_with('"') && !key.starts_with('<') && !val.is_empty() && !val.starts_with('(') {
                let unq = val.trim_matches('"');
                if !unq.is_empty() && unq.len() <= 40 && unq.parse::<f64>().is_err() {
                    if let Some(off) = t[eq + 1..].find(unq) {
                        let s = eq + 1 + off;
                        out.push(Slot { line: li, start: s, end: s + unq.len(), value: unq.to_string(), tag: key.to_string() });
                    }
                }
            }
        }
    }
    out
}

/// Text with every one-line XML leaf `NO` switched to `SI`.
pub fn flags_on(text: &str) -> String {
    text.replace(">NO</", ">SI</")
}
