mod baton;
mod checks;
mod closure;
mod corpus;
mod diskfault;
mod engines;
mod fdcap;
mod modelfault;
mod optvar;
mod orch;
mod panics;
mod report;
mod rng;
mod worker;

fn main() {
    let args: Vec<String> = std::env::args().collect();
    let code = match args.get(1).map(|s| s.as_str()) {
        Some("worker") => worker::worker_main(&args[2..]),
        Some("check") => checks::main(&args[2..]),
        Some("baseline") => checks::baseline::main(&args[2..]),
        Some("selftest") => checks::selftest::main(&args[2..]),
        Some("clone") => {
            // debugging aid: print the unused copy made by clone_subgraph
            let (_, text) = engines::disk::text_of(&args[2]);
            match diskfault::clone_subgraph(&text, args[3].parse().unwrap_or(0)) {
                Some((t, (a, b))) => {
                    for (i, l) in t.split('\n').enumerate() {
                        if i >= a && i <= b {
                            println!("{:6} {}", i, l);
                        }
                    }
                    0
                }
                None => {
                    println!("no clone");
                    1
                }
            }
        }
        _ => {
            eprintln!("usage: ctesim check <ID> <quick|thorough> [--replay FILE] | worker ... | baseline");
            2
        }
    };
    std::process::exit(code);
}
