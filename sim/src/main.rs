mod baton;
mod checks;
mod closure;
mod corpus;
mod diskfault;
mod engines;
mod fdcap;
mod modelfault;
mod optvar;
mod orch;
mod panics;
mod projgen;
mod report;
mod rng;
mod worker;

fn main() {
    let args: Vec<String> = std::env::args().collect();
    let code = match args.get(1).map(|s| s.as_str()) {
        Some("worker") => worker::worker_main(&args[2..]),
        Some("check") => {
            // a panic of the simulator itself is a harness error (exit 2), never a verdict
            let a = args[2..].to_vec();
            match std::panic::catch_unwind(move || checks::main(&a)) {
                Ok(rc) => rc,
                Err(_) => {
                    println!("HARNESS-ERROR: the simulator panicked; this run gives no verdict (exit 2)");
                    2
                }
            }
        }
        Some("baseline") => checks::baseline::main(&args[2..]),
        Some("selftest") => checks::selftest::main(&args[2..]),
        Some("gen") => {
            // debugging aid: print a generated project
            print!("{}", projgen::generate(args.get(2).and_then(|s| s.parse().ok()).unwrap_or(1)));
            0
        }
        Some("genstat") => {
            // debugging aid: how many generated projects convert, are closed, are sane, give finite indicators
            panics::install_hook();
            let n: u64 = args.get(2).and_then(|s| s.parse().ok()).unwrap_or(100);
            let (mut ok, mut err, mut pan, mut closed, mut sane, mut fin) = (0, 0, 0, 0, 0, 0);
            for seed in 0..n {
                let (text, feat) = projgen::generate_with_features(seed);
                match panics::contain(|| engines::disk::convert_ctehexml(&text, 1)) {
                    Ok(Ok(m)) => {
                        ok += 1;
                        let v: serde_json::Value = serde_json::from_str(&m.as_json().unwrap()).unwrap();
                        if closure::closure_violations(&v).is_empty() {
                            closed += 1;
                        } else {
                            println!("seed {} not closed: {:?}", seed, closure::closure_violations(&v).first());
                        }
                        match engines::model::sane(&v) {
                            Ok(()) => sane += 1,
                            Err(e) => println!("seed {} not sane: {} {:?}", seed, e, feat),
                        }
                        match panics::contain(|| m.energy_indicators()) {
                            Ok(ind) => {
                                let nf = engines::model::nonfinite_fields(&format!("{:?}", ind));
                                if nf.is_empty() {
                                    fin += 1;
                                } else {
                                    println!("seed {} non-finite: {:?} {:?}", seed, nf, feat);
                                }
                            }
                            Err(p) => println!("seed {} indicators panic: {:?}", seed, p),
                        }
                    }
                    Ok(Err(e)) => {
                        err += 1;
                        println!("seed {} rejected: {} {:?}", seed, format!("{:#}", e).lines().next().unwrap_or(""), feat);
                    }
                    Err(p) => {
                        pan += 1;
                        println!("seed {} PANIC: {:?}", seed, p);
                    }
                }
            }
            println!("generated {}: converted {}, rejected {}, panicked {}; closed {}, sane {}, finite indicators {}", n, ok, err, pan, closed, sane, fin);
            0
        }
        Some("clone") => {
            // debugging aid: print the unused copy made by clone_subgraph
            let (_, text) = engines::disk::text_of(&args[2]);
            match diskfault::clone_subgraph(&text, args[3].parse().unwrap_or(0)) {
                Some((t, (a, b))) => {
                    for (i, l) in t.split('\n').enumerate() {
                        if i >= a && i <= b {
                            println!("{:6} {}", i, l);
                        }
                    }
                    0
                }
                None => {
                    println!("no clone");
                    1
                }
            }
        }
        _ => {
            eprintln!("usage: ctesim check <ID> <quick|thorough> [--replay FILE] | worker ... | baseline");
            2
        }
    };
    std::process::exit(code);
}
