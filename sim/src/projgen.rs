//! The verifier's BDL printer: synthetic HULC projects.
//!
//! A generated project keeps everything of the smallest shipped project (`cubo.ctehexml`: XML
//! sections, schedules, conditions, materials, constructions, thermal bridges) and replaces its
//! geometry - shades, polygons, floors, spaces, walls, windows - by a printed building that is a
//! pure function of one integer. The printer covers what the shipped projects hardly have:
//! basements (floors below ground with ground-contact walls), several floors with intermediate
//! slabs, party walls, unconditioned and uninhabited spaces, space multipliers, spaces outside
//! the thermal envelope, windows with overhangs and (equal or different) side fins and setbacks,
//! several windows per wall, building shades, a rotated building.
//!
//! Virtual path of a generated file: `gen/<seed>/gen<seed>.ctehexml` (see corpus::read_rel).

use crate::rng::{self, Rng};
use std::fmt::Write as _;

pub const TEMPLATE: &str = "hulc_tests/tests/cubo/cubo.ctehexml";

thread_local! {
    static TEMPLATE_TEXT: std::cell::RefCell<Option<String>> = const { std::cell::RefCell::new(None) };
}

fn template() -> String {
    TEMPLATE_TEXT.with(|t| {
        let mut t = t.borrow_mut();
        if t.is_none() {
            let p = std::path::Path::new(&crate::panics::repo_root()).join(TEMPLATE);
            *t = Some(String::from_utf8_lossy(&std::fs::read(p).expect("template project")).to_string());
        }
        t.clone().unwrap()
    })
}

pub fn dir_rel(seed: u64) -> String {
    format!("gen/{}", seed)
}

pub fn file_rel(seed: u64) -> String {
    format!("gen/{}/gen{}.ctehexml", seed, seed)
}

/// `gen/<seed>/...` -> seed
pub fn seed_of(rel: &str) -> Option<u64> {
    let r = rel.strip_prefix("gen/")?;
    r.split('/').next()?.parse().ok()
}

fn num(x: f64) -> String {
    // HULC writes up to 7 significant digits, right-aligned; alignment does not matter
    let r = (x * 1000.0).round() / 1000.0;
    if r == r.trunc() {
        format!("{}", r as i64)
    } else {
        format!("{}", r)
    }
}

/// Name of space `s` (0-based) of floor `f` (0-based). Style 0 is HULC's own scheme; the others
/// are names a user may type: names that are prefixes of each other, names with blanks and
/// accented letters.
fn space_name(style: u64, f: usize, s: usize) -> String {
    match style {
        1 => format!("P{:02}_E{}", f + 1, ["1", "10", "100"][s % 3]),
        2 => format!("Planta {} sal\u{f3}n {}", f + 1, ["a", "a b", "a b c"][s % 3]),
        // names that are numbers (door numbers)
        3 => format!("{}0{}", f + 1, s + 1),
        _ => format!("P{:02}_E{:02}", f + 1, s + 1),
    }
}

struct Cons {
    ext: &'static str,
    roof: &'static str,
    ground: &'static str,
    part_v: &'static str,
    part_h: &'static str,
    party: &'static str,
}

const CONS: Cons = Cons {
    ext: "Fachada por defecto D",
    roof: "Cubierta por defecto C, D",
    ground: "Contacto por defecto",
    part_v: "PIV por defecto",
    part_h: "PIH por defecto",
    party: "MED por defecto C, D, E",
};

fn construction_block(out: &mut String, name: &str, layers: &str, abs: Option<f64>) {
    let _ = writeln!(out, "                  \"{}\" =  CONSTRUCTION", name);
    let _ = writeln!(out, "                        TYPE   = LAYERS  ");
    let _ = writeln!(out, "                        LAYERS = \"{}\" ", layers);
    if let Some(a) = abs {
        let _ = writeln!(out, "                        ABSORPTANCE = {:.6}", a);
    }
    let _ = writeln!(out, "                        ..");
}

fn window_block(out: &mut String, name: &str, rng: &mut Rng, wall_w: f64, wall_h: f64, slot: usize, slots: usize, gaps: &[(String, String)]) {
    let (gap, glass) = rng.pick(gaps).clone();
    // the wall is divided in `slots` equal parts; the window stays inside its part
    let part = wall_w / slots as f64;
    let w = (part * *rng.pick(&[0.3, 0.5, 0.7])).max(0.3);
    let h = (wall_h * *rng.pick(&[0.3, 0.4, 0.6])).max(0.3);
    let x = part * slot as f64 + (part - w) * *rng.pick(&[0.0, 0.5, 1.0]) * 0.9 + 0.02;
    let y = (wall_h - h) * *rng.pick(&[0.0, 0.3, 0.5]);
    let setback = *rng.pick(&[0.0, 0.0, 0.2, 0.35]);
    // dormant or active shading devices
    let style = rng.below(7);
    let (ov, lf, rf): (Option<[f64; 5]>, Option<[f64; 4]>, Option<[f64; 4]>) = match style {
        0 | 1 | 2 => (None, None, None),
        3 => (Some([0.1, 0.0, w + 0.4, 0.6, 0.0]), None, None),
        // equal side fins (the usual symmetric design)
        4 => (None, Some([0.1, 0.0, h, 0.5]), Some([0.1, 0.0, h, 0.5])),
        5 => (Some([0.2, 0.1, w, 0.8, 15.0]), Some([0.05, 0.1, h + 0.2, 0.4]), Some([0.3, 0.0, h, 0.7])),
        _ => (None, Some([0.0, 0.0, h, 0.3]), None),
    };
    let _ = writeln!(out, "                  \"{}\" = WINDOW", name);
    let _ = writeln!(out, "                        X              = {:>14}", num(x));
    let _ = writeln!(out, "                        Y              = {:>14}", num(y));
    let _ = writeln!(out, "                        SETBACK        = {:>14}", num(setback));
    let _ = writeln!(out, "                        HEIGHT         = {:>14}", num(h));
    let _ = writeln!(out, "                        WIDTH          = {:>14}", num(w));
    let _ = writeln!(out, "                        GAP            = \"{}\"", gap);
    let _ = writeln!(out, "                        COEFF = ( 1.000000, 1.000000, 1.000000, 1.000000)");
    let _ = writeln!(out, "            transmisividadJulio        = {:.6}", *rng.pick(&[1.0, 1.0, 0.6]));
    let _ = writeln!(out, "                        GLASS-TYPE     = \"{}\"", glass);
    let _ = writeln!(out, "                        FRAME-WIDTH   =     0.03410895");
    let _ = writeln!(out, "                        FRAME-CONDUCT =         10.109");
    let _ = writeln!(out, "                        FRAME-ABS     =            0.4");
    let _ = writeln!(out, "                        INF-COEF       =             25");
    let o = ov.unwrap_or([0.0; 5]);
    for (k, v) in ["OVERHANG-A", "OVERHANG-B", "OVERHANG-W", "OVERHANG-D", "OVERHANG-ANGLE"].iter().zip(o.iter()) {
        let _ = writeln!(out, "                        {:<14} = {:>14}", k, num(*v));
    }
    let l = lf.unwrap_or([0.0; 4]);
    for (k, v) in ["LEFT-FIN-A", "LEFT-FIN-B", "LEFT-FIN-H", "LEFT-FIN-D"].iter().zip(l.iter()) {
        let _ = writeln!(out, "                        {:<14} = {:>14}", k, num(*v));
    }
    let r = rf.unwrap_or([0.0; 4]);
    for (k, v) in ["RIGHT-FIN-A", "RIGHT-FIN-B", "RIGHT-FIN-H", "RIGHT-FIN-D"].iter().zip(r.iter()) {
        let _ = writeln!(out, "                        {:<14} = {:>14}", k, num(*v));
    }
    let _ = writeln!(out, "                        ..");
}

/// Parameters of a printed building (kept for the evidence: which features a seed has).
#[derive(Clone, Debug, Default)]
pub struct Features {
    pub floors: usize,
    pub spaces: usize,
    pub basement: bool,
    pub windows: usize,
    pub fins: usize,
    pub overhangs: usize,
    pub shades: usize,
    pub multiplier: bool,
    pub party_walls: usize,
    pub rotated: bool,
    pub gaps: usize,
    pub interior_windows: usize,
    pub name_style: u64,
    pub own_profiles: bool,
}

/// Seeds from here on name the second family: a small SELF-CONTAINED project (it defines every
/// material, glass, frame and construction it uses, so it converts without the LIDER catalogue,
/// and it has no profile or schedule blocks at all, like an old LIDER file).
pub const SELF_CONTAINED_FROM: u64 = 9_000_000;

pub fn generate(seed: u64) -> String {
    if seed >= SELF_CONTAINED_FROM {
        return generate_self_contained(seed);
    }
    generate_with_features(seed).0
}

/// The XML frame of the template around the small self-contained BDL text kept in
/// /verif/miri/src/small_project.bdl. Even seeds define the window construction under the
/// name of a catalogue entry (with the values HULC writes into a project, which differ from the
/// catalogue's); seeds divisible by 3 rotate the building.
pub fn generate_self_contained(seed: u64) -> String {
    let t = template();
    let bdl_path = crate::report::verif_dir().join("miri/src/small_project.bdl");
    let mut bdl = std::fs::read_to_string(&bdl_path).expect("small_project.bdl");
    if seed % 2 == 0 {
        bdl = bdl.replace("\"Hueco usuario\"", "\"Doble -- Mrpt - Gris claro\"");
    }
    if seed % 3 == 0 {
        bdl = bdl.replace("X              =              3", "X              =              4");
    }
    let open = "<![CDATA[";
    let a = t.find(open).expect("template CDATA") + open.len();
    let b = a + t[a..].find("]]>").expect("template CDATA end");
    format!("{}{}\n{}", &t[..a], bdl, &t[b..])
}

pub fn generate_with_features(seed: u64) -> (String, Features) {
    let mut rng = Rng::new(rng::derive(seed, "projgen", 0));
    let mut feat = Features::default();
    let t = template();
    let lines: Vec<&str> = t.split('\n').collect();
    let find = |pred: &dyn Fn(&str) -> bool, from: usize| -> usize { (from..lines.len()).find(|i| pred(lines[*i])).expect("template marker") };
    // markers in the template
    let i_shade = find(&|l| l.contains("= BUILDING-SHADE"), 0);
    let i_shade_end = find(&|l| l.trim() == "..", i_shade);
    let i_poly = find(&|l| l.trim_end().ends_with("= POLYGON"), i_shade_end);
    let i_run = find(&|l| l.contains("= RUN-PERIOD-PD"), i_poly);
    // comment lines just before the run period belong to the middle part
    let mut i_mid = i_run;
    while i_mid > 0 && lines[i_mid - 1].starts_with('$') {
        i_mid -= 1;
    }
    let i_floor = find(&|l| l.trim_end().ends_with("= FLOOR"), i_run);
    let i_cond = find(&|l| l.contains("CONDICIONES OPERACIONALES"), i_floor);
    let i_tail = i_cond - 2; // "$" and "$ +----+" lines before the title

    // ---- the building
    let n_floors = rng.range(1, 3);
    let n_spaces = rng.range(1, 3);
    let floor_h = *rng.pick(&[2.6, 3.0, 3.0, 4.2]);
    let basement = rng.chance(1, 3);
    let z0 = if basement { -floor_h * *rng.pick(&[1.0, 1.0, 0.5]) } else { *rng.pick(&[0.0, 0.0, 0.0, 0.6]) };
    let depth = *rng.pick(&[4.0, 6.0, 10.0]);
    let widths: Vec<f64> = (0..n_spaces).map(|_| *rng.pick(&[3.0, 5.0, 8.0])).collect();
    let x_origin = *rng.pick(&[0.0, 0.0, -2.5]);
    let y_origin = *rng.pick(&[0.0, 0.0, 3.25]);
    let azimuth = *rng.pick(&[0.0, 0.0, 37.5, 270.0]);
    let name_style = [0u64, 0, 1, 2, 3][(seed % 5) as usize];
    // every third project has profiles of its own next to the template's "Residencial" ones
    let own_profiles = seed % 3 == 1;
    feat.name_style = name_style;
    feat.floors = n_floors;
    feat.spaces = n_floors * n_spaces;
    feat.basement = z0 < 0.0;
    feat.rotated = azimuth != 0.0;

    // ---- own glazing library: 0..2 more glasses and 0..4 more window constructions whose glass
    // and frame are shared in every pattern (A B A in name order, all the same, all different)
    let i_gap = find(&|l| l.trim_end().ends_with("= GAP"), 0);
    let mut glazing = String::new();
    let mut glasses: Vec<String> = vec!["Doble".into()];
    for k in 0..rng.below(3) {
        let name = format!("Vidrio gen {}", k + 1);
        let _ = writeln!(glazing, "\"{}\" = GLASS-TYPE", name);
        let _ = writeln!(glazing, "     GROUP             = \"Vidrios\"");
        let _ = writeln!(glazing, "     TYPE              = SHADING-COEF");
        let _ = writeln!(glazing, "     SHADING-COEF      = {:>14}", num(*rng.pick(&[0.4, 0.65, 0.8])));
        let _ = writeln!(glazing, "     GLASS-CONDUCTANCE = {:>14}", num(*rng.pick(&[1.1, 1.8, 5.7])));
        let _ = writeln!(glazing, "     NAME_CALENER      = \"\"");
        let _ = writeln!(glazing, "     LIBRARY       =  NO");
        let _ = writeln!(glazing, "    UTIL          =  YES");
        let _ = writeln!(glazing, "    CHANGE          =  NO");
        let _ = writeln!(glazing, "    ..");
        glasses.push(name);
    }
    let frames = ["Met - Gris claro", "Mrpt - Gris claro", "Mpvc o mad - Gris claro"];
    let mut gaps: Vec<(String, String)> = vec![("Doble -- Mrpt - Gris claro".into(), "Doble".into())];
    let n_gaps = rng.below(5);
    for k in 0..n_gaps {
        // names sort as A, B, C, D; glass index pattern chosen per project
        let name = format!("Hueco gen {}", ["A", "B", "C", "D"][k]);
        let glass = match seed % 3 {
            0 => glasses[k % glasses.len()].clone(),
            1 => glasses[(k / 2) % glasses.len()].clone(),
            _ => rng.pick(&glasses).clone(),
        };
        let frame = frames[match seed % 2 { 0 => k % 2, _ => rng.below(3) }];
        let _ = writeln!(glazing, "\"{}\" = GAP", name);
        let _ = writeln!(glazing, "     NAME           = \"{}\"", name);
        let _ = writeln!(glazing, "     TYPE           = 1");
        let _ = writeln!(glazing, "     GROUP          = \"Huecos\"");
        let _ = writeln!(glazing, "     GROUP-GLASS         = \"Vidrios\"");
        let _ = writeln!(glazing, "     GLASS-TYPE          = \"{}\"", glass);
        let _ = writeln!(glazing, "     GROUP-FRAME       = \"Marcos\"");
        let _ = writeln!(glazing, "     NAME-FRAME        = \"{}\"", frame);
        let _ = writeln!(glazing, "     PORCENTAGE        = {:.6}", *rng.pick(&[10.0, 25.0, 12.5, 33.333]));
        let _ = writeln!(glazing, "     INF-COEF          = {:.6}", *rng.pick(&[3.0, 9.0, 27.0, 7.777]));
        let _ = writeln!(glazing, "     porcentajeIncrementoU = {:.6}", *rng.pick(&[0.0, 10.0]));
        let _ = writeln!(glazing, "     NAME_CALENER      = \"\"");
        let _ = writeln!(glazing, "     TransmisividadJulio = {:.6}", *rng.pick(&[1.0, 0.7, 0.325]));
        let _ = writeln!(glazing, "     LIBRARY           =  NO");
        let _ = writeln!(glazing, "     UTIL              =  YES");
        let _ = writeln!(glazing, "     ISDOOR            = NO");
        let _ = writeln!(glazing, "    ..");
        gaps.push((name, glass));
    }
    feat.gaps = gaps.len();

    // ---- shades
    let mut shades = String::new();
    let n_shades = rng.below(3);
    feat.shades = n_shades;
    for k in 0..n_shades {
        let x = x_origin + *rng.pick(&[-3.0, 2.0, 12.0]);
        let y = y_origin - *rng.pick(&[1.0, 4.0, 8.0]);
        let (w, h) = (*rng.pick(&[2.0, 3.5, 9.0]), *rng.pick(&[2.0, 6.0]));
        let _ = writeln!(shades, "\"Sombra{:03}\" = BUILDING-SHADE", k + 1);
        let _ = writeln!(shades, "      BULB-TRA = \"Default.bulb\"");
        let _ = writeln!(shades, "      BULB-REF = \"Default.bulb\"");
        let _ = writeln!(shades, "      TRAN     =              0");
        let _ = writeln!(shades, "      REFL     =            0.7");
        if k % 2 == 0 {
            // vertical screen
            let _ = writeln!(shades, "      V1       =( {}, {}, 0 )", num(x), num(y));
            let _ = writeln!(shades, "      V2       =( {}, {}, 0 )", num(x + w), num(y));
            let _ = writeln!(shades, "      V3       =( {}, {}, {} )", num(x + w), num(y), num(h));
            let _ = writeln!(shades, "      V4       =( {}, {}, {} )", num(x), num(y), num(h));
        } else {
            // horizontal canopy
            let _ = writeln!(shades, "      V1       =( {}, {}, {} )", num(x), num(y), num(h));
            let _ = writeln!(shades, "      V2       =( {}, {}, {} )", num(x + w), num(y), num(h));
            let _ = writeln!(shades, "      V3       =( {}, {}, {} )", num(x + w), num(y + 1.5), num(h));
            let _ = writeln!(shades, "      V4       =( {}, {}, {} )", num(x), num(y + 1.5), num(h));
        }
        let _ = writeln!(shades, "           ..");
    }

    // ---- polygons
    let total_w: f64 = widths.iter().sum();
    let mut polys = String::new();
    let rect = |out: &mut String, name: &str, x0: f64, x1: f64| {
        let _ = writeln!(out, "\"{}\" = POLYGON", name);
        let _ = writeln!(out, "    V1   =( {}, {} )", num(x0), num(y_origin));
        let _ = writeln!(out, "    V2   =( {}, {} )", num(x1), num(y_origin));
        let _ = writeln!(out, "    V3   =( {}, {} )", num(x1), num(y_origin + depth));
        let _ = writeln!(out, "    V4   =( {}, {} )", num(x0), num(y_origin + depth));
        let _ = writeln!(out, "    ..");
    };
    for f in 0..n_floors {
        rect(&mut polys, &format!("P{:02}_Poligono1", f + 1), x_origin, x_origin + total_w);
        let mut x = x_origin;
        for (s, w) in widths.iter().enumerate() {
            rect(&mut polys, &format!("{}_Pol{}", space_name(name_style, f, s), s + 2), x, x + w);
            x += w;
        }
    }

    // ---- floors, spaces, walls, windows
    let mut body = String::new();
    for f in 0..n_floors {
        let fname = format!("P{:02}", f + 1);
        let z = z0 + floor_h * f as f64;
        let below_ground = z < -0.01;
        let _ = writeln!(body, "\"{}\" = FLOOR", fname);
        if f > 0 || z != 0.0 {
            let _ = writeln!(body, "      Z             = {:>14}", num(z));
        }
        let _ = writeln!(body, "      POLYGON       =  \"{}_Poligono1\"", fname);
        let _ = writeln!(body, "      FLOOR-HEIGHT  = {:>14}", num(floor_h));
        let _ = writeln!(body, "      SPACE-HEIGHT  = {:>14}", num(floor_h));
        if f == n_floors - 1 && n_floors > 1 && rng.chance(1, 4) {
            let _ = writeln!(body, "      MULTIPLIER    = 2");
            feat.multiplier = true;
        }
        let _ = writeln!(body, "      SHAPE         =  POLYGON");
        let _ = writeln!(body, "      PREVIOUS      =  \"{}\"", if f == 0 { "Ninguna".to_string() } else { format!("P{:02}", f) });
        let _ = writeln!(body, "      ..");
        for (s, w) in widths.iter().enumerate() {
            let sname = space_name(name_style, f, s);
            let stype = *rng.pick(&["CONDITIONED", "CONDITIONED", "CONDITIONED", "UNHABITED", "UNCONDITIONED"]);
            let inside = stype == "CONDITIONED" || rng.chance(1, 2);
            let mult = if rng.chance(1, 8) { 3 } else { 1 };
            if mult > 1 {
                feat.multiplier = true;
            }
            let _ = writeln!(body, "    \"{}\" = SPACE", sname);
            let _ = writeln!(body, "        nCompleto = \"{}\"", sname);
            let _ = writeln!(body, "              HEIGHT        = {:>14}", num(floor_h));
            let _ = writeln!(body, "            SHAPE             = POLYGON ");
            let _ = writeln!(body, "            POLYGON           = \"{}_Pol{}\"", sname, s + 2);
            let _ = writeln!(body, "            TYPE              = {}", stype);
            let _ = writeln!(body, "            SPACE-TYPE        = \"Residencial\"");
            // the two profiles of a space need not carry the same name
            let sysc = if own_profiles { *rng.pick(&["Residencial", "Consignas vivienda", "Consignas vivienda"]) } else { "Residencial" };
            let spcc = if own_profiles { *rng.pick(&["Residencial", "Residencial", "Cargas propias"]) } else { "Residencial" };
            let _ = writeln!(body, "            SYSTEM-CONDITIONS = \"{}\"", sysc);
            let _ = writeln!(body, "            SPACE-CONDITIONS  = \"{}\"", spcc);
            let _ = writeln!(body, "            FLOOR-WEIGHT      =              0");
            let _ = writeln!(body, "            MULTIPLIER        = {}", mult);
            let _ = writeln!(body, "            MULTIPLIED        = {}", if mult > 1 { 1 } else { 0 });
            let _ = writeln!(body, "            PILLARS-NUMBERS   = 0");
            let _ = writeln!(body, "       FactorSuperficieUtil   = 1.0");
            let _ = writeln!(body, "       perteneceALaEnvolventeTermica   = {}", if inside { "SI" } else { "NO" });
            let _ = writeln!(body, "           INTERIOR-RADIATION  = FIXED");
            let _ = writeln!(body, "           POWER     = 4.4");
            let _ = writeln!(body, "           VEEI-OBJ  = 7.000000");
            let _ = writeln!(body, "           VEEI-REF  = 10.000000");
            let _ = writeln!(body, "            ..");
            // vertical enclosure: V1 south, V2 east, V3 north, V4 west
            let mut n_ext = 0;
            let mut n_med = 0;
            let mut n_ter = 0;
            for (v, len) in [(1usize, *w), (2, depth), (3, *w), (4, depth)] {
                let shared_east = v == 2 && s + 1 < n_spaces;
                let shared_west = v == 4 && s > 0;
                if shared_west {
                    // HULC writes a partition in only one of the two spaces it separates
                    continue;
                }
                if shared_east {
                    n_med += 1;
                    let _ = writeln!(body, "            \"{}_Med{:03}\" = INTERIOR-WALL", sname, n_med);
                    let _ = writeln!(body, "                  INT-WALL-TYPE = STANDARD  ");
                    let _ = writeln!(body, "                  NEXT-TO       = \"{}\"  ", space_name(name_style, f, s + 1));
                    let _ = writeln!(body, "   COMPROBAR-REQUISITOS-MINIMOS = NO");
                    let _ = writeln!(body, "                  CONSTRUCTION  = \"{}\"  ", CONS.part_v);
                    let _ = writeln!(body, "                  LOCATION      = SPACE-V{}  ", v);
                    let _ = writeln!(body, "                        ..");
                    construction_block(&mut body, CONS.part_v, CONS.part_v, None);
                    // an interior window (glazed partition): unusual but legal
                    if rng.chance(1, 4) {
                        window_block(&mut body, &format!("{}_Med{:03}_V", sname, n_med), &mut rng, len, floor_h, 0, 1, &gaps);
                        feat.windows += 1;
                        feat.interior_windows += 1;
                    }
                    continue;
                }
                if below_ground {
                    n_ter += 1;
                    let _ = writeln!(body, "            \"{}_TER{:03}\" = UNDERGROUND-WALL", sname, n_ter);
                    let _ = writeln!(body, "                  Z-GROUND      = {:>14}", num(z));
                    let _ = writeln!(body, "   COMPROBAR-REQUISITOS-MINIMOS = YES");
                    let _ = writeln!(body, "                  CONSTRUCTION  = \"{}\"  ", CONS.ground);
                    let _ = writeln!(body, "                  LOCATION      = SPACE-V{}  ", v);
                    let _ = writeln!(body, "                        ..");
                    construction_block(&mut body, CONS.ground, CONS.ground, None);
                    continue;
                }
                if v == 4 && rng.chance(1, 4) {
                    // party wall
                    n_med += 1;
                    feat.party_walls += 1;
                    let _ = writeln!(body, "            \"{}_MED{:03}\" = INTERIOR-WALL", sname, n_med);
                    let _ = writeln!(body, "                  INT-WALL-TYPE = ADIABATIC  ");
                    let _ = writeln!(body, "   COMPROBAR-REQUISITOS-MINIMOS = NO");
                    let _ = writeln!(body, "                  CONSTRUCTION  = \"{}\"  ", CONS.party);
                    let _ = writeln!(body, "                  LOCATION      = SPACE-V{}  ", v);
                    let _ = writeln!(body, "                        ..");
                    construction_block(&mut body, CONS.party, CONS.party, None);
                    if rng.chance(1, 5) {
                        window_block(&mut body, &format!("{}_MED{:03}_V", sname, n_med), &mut rng, len, floor_h, 0, 1, &gaps);
                        feat.windows += 1;
                        feat.interior_windows += 1;
                    }
                    continue;
                }
                n_ext += 1;
                let wname = format!("{}_PE{:03}", sname, n_ext);
                let abs = *rng.pick(&[0.6, 0.6, 0.3, 0.9]);
                let cname = format!("{}{:.2}", CONS.ext, abs);
                let _ = writeln!(body, "            \"{}\" = EXTERIOR-WALL", wname);
                let _ = writeln!(body, "                  ABSORPTANCE   = {:>14}", num(abs));
                let _ = writeln!(body, "                  COMPROBAR-REQUISITOS-MINIMOS = YES");
                let _ = writeln!(body, "                  TYPE_ABSORPTANCE    = 0");
                let _ = writeln!(body, "                  COLOR_ABSORPTANCE   = 0");
                let _ = writeln!(body, "                  DEGREE_ABSORPTANCE   = 2");
                let _ = writeln!(body, "                  CONSTRUCCION_MURO  = \"{}\"  ", CONS.ext);
                let _ = writeln!(body, "                  CONSTRUCTION  = \"{}\"  ", cname);
                let _ = writeln!(body, "                  LOCATION      = SPACE-V{}  ", v);
                let _ = writeln!(body, "                        ..");
                construction_block(&mut body, &cname, CONS.ext, Some(abs));
                let n_win = *rng.pick(&[0usize, 1, 1, 2]);
                for k in 0..n_win {
                    let before = body.len();
                    window_block(&mut body, &format!("{}_V{}", wname, if n_win == 1 { String::new() } else { format!("{}", k + 1) }), &mut rng, len, floor_h, k, n_win, &gaps);
                    feat.windows += 1;
                    let txt = &body[before..];
                    let on = |key: &str| txt.lines().any(|l| l.trim_start().starts_with(key) && !l.trim_end().ends_with(" 0"));
                    if on("LEFT-FIN-D") {
                        feat.fins += 1;
                    }
                    if on("RIGHT-FIN-D") {
                        feat.fins += 1;
                    }
                    if on("OVERHANG-D") {
                        feat.overhangs += 1;
                    }
                }
            }
            // floor of the space
            if f == 0 {
                if z <= 0.01 {
                    let _ = writeln!(body, "            \"{}_FTER001\" = UNDERGROUND-WALL", sname);
                    let _ = writeln!(body, "                  Z-GROUND      = {:>14}", num(z.min(0.0)));
                    let _ = writeln!(body, "   COMPROBAR-REQUISITOS-MINIMOS = YES");
                    let _ = writeln!(body, "                  CONSTRUCTION  = \"{}\"  ", CONS.ground);
                    let _ = writeln!(body, "                  LOCATION      = BOTTOM  ");
                    let _ = writeln!(body, "                   AREA          = {:>14}", num(w * depth));
                    let _ = writeln!(body, "                   PERIMETRO     = {:>14}", num(2.0 * (w + depth)));
                    let _ = writeln!(body, "                        ..");
                    construction_block(&mut body, CONS.ground, CONS.ground, None);
                } else {
                    // raised ground floor: a slab in contact with outside air
                    let cname = format!("{}0.60", "Suelo por defecto A, B, C, D, E");
                    let _ = writeln!(body, "            \"{}_FE001\" = EXTERIOR-WALL", sname);
                    let _ = writeln!(body, "                  ABSORPTANCE   =            0.6");
                    let _ = writeln!(body, "                  COMPROBAR-REQUISITOS-MINIMOS = YES");
                    let _ = writeln!(body, "                  CONSTRUCTION  = \"{}\"  ", cname);
                    let _ = writeln!(body, "                  LOCATION      = BOTTOM  ");
                    let _ = writeln!(body, "                        ..");
                    construction_block(&mut body, &cname, "Suelo por defecto A, B, C, D, E", Some(0.6));
                }
            } else {
                let _ = writeln!(body, "            \"{}_FI001\" = INTERIOR-WALL", sname);
                let _ = writeln!(body, "                  INT-WALL-TYPE = STANDARD  ");
                let _ = writeln!(body, "                  NEXT-TO       = \"{}\"  ", space_name(name_style, f - 1, s));
                let _ = writeln!(body, "   COMPROBAR-REQUISITOS-MINIMOS = NO");
                let _ = writeln!(body, "                  CONSTRUCTION  = \"{}\"  ", CONS.part_h);
                let _ = writeln!(body, "                  LOCATION      = BOTTOM  ");
                let _ = writeln!(body, "                        ..");
                construction_block(&mut body, CONS.part_h, CONS.part_h, None);
            }
            // ceiling of the top floor
            if f == n_floors - 1 {
                let _ = writeln!(body, "            \"{}_CUB001\" = ROOF", sname);
                let _ = writeln!(body, "                  ABSORPTANCE   =            0.6");
                let _ = writeln!(body, "                  COMPROBAR-REQUISITOS-MINIMOS = YES");
                let _ = writeln!(body, "                  TYPE_ABSORPTANCE    = 0");
                let _ = writeln!(body, "                  COLOR_ABSORPTANCE   = 0");
                let _ = writeln!(body, "                  DEGREE_ABSORPTANCE   = 2");
                let _ = writeln!(body, "                  CONSTRUCTION  = \"{}\"  ", CONS.roof);
                let _ = writeln!(body, "                  LOCATION      = TOP  ");
                let _ = writeln!(body, "                        ..");
                construction_block(&mut body, CONS.roof, CONS.roof, None);
            }
        }
    }

    // ---- assemble
    let mut out = String::with_capacity(t.len() + body.len());
    for (i, l) in lines[..i_shade].iter().enumerate() {
        if i == i_gap {
            out.push_str(&glazing);
        }
        out.push_str(l);
        out.push('\n');
    }
    out.push_str(&shades);
    for l in &lines[i_shade_end + 1..i_poly] {
        out.push_str(l);
        out.push('\n');
    }
    out.push_str(&polys);
    for l in &lines[i_mid..i_floor] {
        if l.trim_start().starts_with("AZIMUTH") {
            let _ = writeln!(out, "           AZIMUTH   = {:.6}", azimuth);
        } else {
            out.push_str(l);
            out.push('\n');
        }
    }
    out.push_str(&body);
    // thermal bridges of the template: psi values made non-negative (the concave-corner bridge has
    // a negative one, which the strict sanity predicate of C14 excludes) and some lengths set
    let mut tail: Vec<String> = lines[i_tail..].iter().map(|l| l.to_string()).collect();
    for l in tail.iter_mut() {
        let t = l.trim_start();
        if t.starts_with("TTL ") && t.contains("= -") {
            *l = l.replace("= -", "= ");
        } else if t.starts_with("LONG-TOTAL") && rng.chance(1, 2) {
            *l = format!("      LONG-TOTAL = {:.6}", *rng.pick(&[4.0, 12.5, 40.0]));
        }
    }
    if own_profiles {
        // copies of the template's profile blocks under other names (a loads profile and a
        // thermostat profile that do not share their name)
        for (btype, new_name) in [("SPACE-CONDITIONS", "Cargas propias"), ("SYSTEM-CONDITIONS", "Consignas vivienda")] {
            let header = format!("\"Residencial\" = {}", btype);
            if let Some(a) = tail.iter().position(|l| l.trim() == header) {
                if let Some(len) = tail[a..].iter().position(|l| l.trim() == "..") {
                    let mut copy: Vec<String> = tail[a..=a + len].to_vec();
                    copy[0] = format!("\"{}\" = {}", new_name, btype);
                    for l in copy.iter_mut().skip(1) {
                        if l.trim_start().starts_with("NAME ") {
                            *l = format!("    NAME               = \"{}\"", new_name);
                        }
                    }
                    let at = a + len + 1;
                    for (k, l) in copy.into_iter().enumerate() {
                        tail.insert(at + k, l);
                    }
                }
            }
        }
    }
    feat.own_profiles = own_profiles;
    out.push_str(&tail.join("\n"));
    (out, feat)
}
