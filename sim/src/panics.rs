//! Panic containment: every operation on the system under test runs under `contain`, and a
//! process-wide panic hook records where the panic came from.  A *site* is
//! (file, enclosing function, message skeleton) - never a line number, which moves under
//! unrelated edits.

use serde::{Deserialize, Serialize};
use std::cell::RefCell;
use std::collections::HashMap;
use std::panic::{self, AssertUnwindSafe};
use std::sync::Mutex;

#[derive(Clone, Debug, Serialize, Deserialize, PartialEq, Eq, Hash, PartialOrd, Ord)]
pub struct Site {
    pub file: String,
    pub function: String,
    pub msg: String,
    /// trimmed source text of the panicking line (content, not position: survives unrelated
    /// edits and tells two `unwrap()`s of one function apart)
    #[serde(default)]
    pub code: String,
}

impl Site {
    pub fn key(&self) -> String {
        format!("{}|{}|{}", self.file, self.function, self.msg)
    }
}

#[derive(Clone, Debug)]
pub struct PanicInfo {
    pub site: Site,
    pub line: u32,
    pub raw_msg: String,
}

thread_local! {
    static LAST: RefCell<Option<PanicInfo>> = const { RefCell::new(None) };
    static QUIET: RefCell<bool> = const { RefCell::new(true) };
}

static FN_CACHE: Mutex<Option<HashMap<(String, u32), (String, String)>>> = Mutex::new(None);

pub fn repo_root() -> String {
    std::env::var("VERIF_REPO").unwrap_or_else(|_| "/repo".to_string())
}

fn strip_repo(path: &str) -> Option<String> {
    let root = repo_root();
    let root = root.trim_end_matches('/');
    if let Some(rest) = path.strip_prefix(root) {
        return Some(rest.trim_start_matches('/').to_string());
    }
    // relative forms (when rustc was given relative paths)
    for pre in ["hulc/", "bemodel/", "hulc2model/", "climate/"] {
        if path.starts_with(pre) {
            return Some(path.to_string());
        }
    }
    None
}

/// Replace digit runs, quoted strings and long hex/uuid-like tokens by `*`.
fn star(first: &str) -> String {
    let mut out = String::new();
    let mut chars = first.chars().peekable();
    let mut last_star = false;
    while let Some(c) = chars.next() {
        if c == '"' || c == '\'' || c == '`' {
            // skip to the matching quote (same char); if none, keep going to end
            let mut found = false;
            let mut buf = String::new();
            for d in chars.by_ref() {
                if d == c {
                    found = true;
                    break;
                }
                buf.push(d);
            }
            let _ = found;
            if !last_star {
                out.push('*');
                last_star = true;
            }
            continue;
        }
        if c.is_ascii_digit() {
            while let Some(d) = chars.peek() {
                if d.is_ascii_digit() || *d == '.' {
                    chars.next();
                } else {
                    break;
                }
            }
            if !last_star {
                out.push('*');
                last_star = true;
            }
            continue;
        }
        out.push(c);
        last_star = false;
    }
    // ALL-CAPS tokens (BDL keywords, vertex names, block types) are data too
    let toks: Vec<String> = out
        .split(' ')
        .map(|t| {
            let core = t.trim_matches(|c: char| !c.is_alphanumeric());
            let caps = core.chars().filter(|c| c.is_alphabetic()).count() >= 2
                && core
                    .chars()
                    .all(|c| c.is_uppercase() || c.is_ascii_digit() || c == '-' || c == '/' || c == '_' || c == '*');
            if caps || t.contains('*') || t.contains('_') {
                "*".to_string()
            } else {
                t.to_string()
            }
        })
        .collect();
    let mut joined = toks.join(" ");
    while joined.contains("* *") {
        joined = joined.replace("* *", "*");
    }
    joined
}

/// Message skeleton: the part before the first ": " with data replaced by `*`, plus the
/// first four words of what follows (error texts carry arbitrary names after that).
pub fn skeleton(msg: &str) -> String {
    let first = msg.lines().next().unwrap_or("");
    let (head, tail) = match first.split_once(": ") {
        Some((h, t)) => (h, Some(t)),
        None => (first, None),
    };
    let mut out = star(head);
    if let Some(t) = tail {
        let st = star(t);
        let words: Vec<&str> = st.split(' ').filter(|w| !w.is_empty()).take(4).collect();
        out.push_str(": ");
        out.push_str(&words.join(" "));
    }
    if out.len() > 160 {
        let mut cut = 160;
        while !out.is_char_boundary(cut) {
            cut -= 1;
        }
        out.truncate(cut);
    }
    out
}

/// Simple glob: `*` matches any run of characters.
pub fn glob_match(pat: &str, s: &str) -> bool {
    let parts: Vec<&str> = pat.split('*').collect();
    if parts.len() == 1 {
        return pat == s;
    }
    let mut pos = 0usize;
    for (i, p) in parts.iter().enumerate() {
        if p.is_empty() {
            continue;
        }
        if i == 0 {
            if !s.starts_with(p) {
                return false;
            }
            pos = p.len();
        } else if i == parts.len() - 1 {
            return s.len() >= pos + p.len() && s[pos..].ends_with(p);
        } else {
            match s[pos..].find(p) {
                Some(k) => pos += k + p.len(),
                None => return false,
            }
        }
    }
    true
}

fn clean_symbol(sym: &str) -> String {
    // drop the trailing ::h<hash>, generic args and closure markers
    let mut s = sym.trim().to_string();
    if let Some(p) = s.rfind("::h") {
        if s[p + 3..].chars().all(|c| c.is_ascii_hexdigit()) && s.len() - p == 19 {
            s.truncate(p);
        }
    }
    while s.ends_with("::{{closure}}") {
        s.truncate(s.len() - "::{{closure}}".len());
    }
    s = s.replace("::{{closure}}", "");
    // strip generic parameter lists
    let mut out = String::new();
    let mut depth = 0i32;
    for c in s.chars() {
        match c {
            '<' => depth += 1,
            '>' => depth -= 1,
            _ if depth == 0 => out.push(c),
            _ => {}
        }
    }
    let out = out.replace("::::", "::");
    if out.trim_matches(':').is_empty() {
        s
    } else {
        out.trim_matches(':').to_string()
    }
}

/// Find the innermost frame that belongs to the repository in a captured backtrace.
fn repo_frame(bt: &str) -> Option<(String, String)> {
    // Format: "  12: symbol\n             at /path/file.rs:LL:CC\n"
    let mut cur_sym: Option<String> = None;
    for line in bt.lines() {
        let t = line.trim_start();
        if let Some(rest) = t.strip_prefix("at ") {
            let path = rest.rsplitn(3, ':').last().unwrap_or(rest);
            if let Some(rel) = strip_repo(path) {
                if let Some(sym) = &cur_sym {
                    if !sym.starts_with("ctesim::") {
                        return Some((rel, clean_symbol(sym)));
                    }
                }
            }
        } else if let Some(p) = t.find(": ") {
            if t[..p].chars().all(|c| c.is_ascii_digit()) {
                cur_sym = Some(t[p + 2..].to_string());
            }
        }
    }
    None
}

fn shared_cache_path() -> Option<String> {
    std::env::var("CTESIM_FNCACHE").ok()
}

fn load_shared_cache(cache: &mut HashMap<(String, u32), (String, String)>) {
    if let Some(p) = shared_cache_path() {
        if let Ok(t) = std::fs::read_to_string(p) {
            for l in t.lines() {
                let f: Vec<&str> = l.split('\t').collect();
                if f.len() == 4 {
                    if let Ok(n) = f[1].parse::<u32>() {
                        cache.insert((f[0].to_string(), n), (f[2].to_string(), f[3].to_string()));
                    }
                }
            }
        }
    }
}

fn store_shared_cache(key: &(String, u32), v: &(String, String)) {
    use std::io::Write;
    if let Some(p) = shared_cache_path() {
        if let Ok(mut f) = std::fs::OpenOptions::new().create(true).append(true).open(p) {
            let _ = f.write_all(format!("{}\t{}\t{}\t{}\n", key.0, key.1, v.0, v.1).as_bytes());
        }
    }
}

/// Source text of a line of a repository file ("" for files outside the repository).
fn source_line(file: &str, line: u32) -> String {
    let rel = match strip_repo(file) {
        Some(r) => r,
        None => return String::new(),
    };
    let p = std::path::Path::new(&repo_root()).join(rel);
    std::fs::read_to_string(p)
        .ok()
        .and_then(|t| t.lines().nth(line.saturating_sub(1) as usize).map(|l| l.trim().chars().take(90).collect::<String>()))
        .unwrap_or_default()
}

pub fn install_hook() {
    panic::set_hook(Box::new(|info| {
        let (file, line) = info
            .location()
            .map(|l| (l.file().to_string(), l.line()))
            .unwrap_or_else(|| ("?".into(), 0));
        let raw_msg = if let Some(s) = info.payload().downcast_ref::<&str>() {
            s.to_string()
        } else if let Some(s) = info.payload().downcast_ref::<String>() {
            s.clone()
        } else {
            "<non-string panic payload>".to_string()
        };
        let (sfile, function) = {
            let mut guard = FN_CACHE.lock().unwrap_or_else(|e| e.into_inner());
            let cache = guard.get_or_insert_with(HashMap::new);
            let key = (file.clone(), line);
            if cache.is_empty() {
                load_shared_cache(cache);
            }
            if let Some(v) = cache.get(&key) {
                v.clone()
            } else {
                let bt = std::backtrace::Backtrace::force_capture().to_string();
                let v = match repo_frame(&bt) {
                    Some((f, func)) => (f, func),
                    None => (
                        strip_repo(&file).unwrap_or_else(|| file.clone()),
                        "?".to_string(),
                    ),
                };
                store_shared_cache(&key, &v);
                cache.insert(key, v.clone());
                v
            }
        };
        let code = source_line(&file, line);
        let site = Site {
            file: sfile,
            function,
            msg: skeleton(&raw_msg),
            code,
        };
        let quiet = QUIET.with(|q| *q.borrow());
        if !quiet {
            eprintln!("[ctesim] panic at {}:{}: {}", file, line, raw_msg);
        }
        LAST.with(|l| {
            *l.borrow_mut() = Some(PanicInfo {
                site,
                line,
                raw_msg,
            })
        });
    }));
}

pub fn set_quiet(q: bool) {
    QUIET.with(|c| *c.borrow_mut() = q);
}

/// Run `f`, containing a panic.  Returns Err(PanicInfo) when it panicked.
pub fn contain<T>(f: impl FnOnce() -> T) -> Result<T, PanicInfo> {
    LAST.with(|l| *l.borrow_mut() = None);
    match panic::catch_unwind(AssertUnwindSafe(f)) {
        Ok(v) => Ok(v),
        Err(_) => {
            let info = LAST.with(|l| l.borrow_mut().take());
            Err(info.unwrap_or(PanicInfo {
                site: Site {
                    file: "?".into(),
                    function: "?".into(),
                    msg: "panic without hook record".into(),
                    code: String::new(),
                },
                line: 0,
                raw_msg: String::new(),
            }))
        }
    }
}

#[cfg(test)]
mod tests {
    use super::*;
    #[test]
    fn skel() {
        assert_eq!(skeleton("index out of bounds: the len is 4 but the index is 17"), "index out of bounds: the len is *");
        assert_eq!(skeleton("called `Result::unwrap()` on an `Err` value: Tipo de bloque desconocido HEAT-PUMP"), "called * on an * value: Tipo de bloque desconocido");
        assert_eq!(skeleton("Horario P01_E01x no identificado"), "Horario * no identificado");
        assert_eq!(skeleton("Vértice BOTTOM desconocido de polígono"), "Vértice * desconocido de polígono");
        assert!(glob_match("Vértice * desconocido*", "Vértice BOTTOM desconocido de polígono"));
        assert!(!glob_match("abc", "abcd"));
        assert!(glob_match("*", "x"));
    }
}
