//! Orchestrator-side check drivers, one per claimed property.

pub mod baseline;
pub mod c01;
pub mod c02;
pub mod c05;
pub mod c14;
pub mod c15;
pub mod modelrun;
pub mod selftest;
pub mod c19;
pub mod diskrun;

pub fn verif_seed() -> u64 {
    std::env::var("VERIF_SEED")
        .ok()
        .and_then(|s| s.parse::<u64>().ok())
        .unwrap_or(20261002)
}

pub fn main(args: &[String]) -> i32 {
    let id = args.first().map(|s| s.as_str()).unwrap_or("");
    let mut tier = std::env::var("VERIF_TIER").unwrap_or_else(|_| "quick".into());
    let mut replay: Option<String> = None;
    let mut i = 1;
    while i < args.len() {
        match args[i].as_str() {
            "quick" | "thorough" => tier = args[i].clone(),
            "--replay" => {
                replay = args.get(i + 1).cloned();
                i += 1;
            }
            _ => {}
        }
        i += 1;
    }
    let seed = verif_seed();
    println!("VERIF_SEED={} property={} tier={}", seed, id, tier);
    let rc = match id {
        "C19" => c19::run(&tier, seed, replay),
        "C02" => c02::run(&tier, seed, replay),
        "C01" => c01::run(&tier, seed, replay),
        "C15" => c15::run(&tier, seed, replay),
        "C14" => c14::run(&tier, seed, replay),
        "C05" => c05::run(&tier, seed, replay),
        _ => {
            eprintln!("unknown property id {}", id);
            2
        }
    };
    let herr = crate::orch::harness_errors();
    if !herr.is_empty() {
        println!("HARNESS-ERROR: {} problem(s) inside the simulator; this run gives no verdict (exit 2)", herr.len());
        return 2;
    }
    rc
}
