//! Shared campaign runner for the storage-fault engine (C19, C02, C01 in-process layer).

use crate::corpus::CorpusFile;
use crate::diskfault::{Edit, Variant};
use crate::orch::{self, Chunk, Outcome, RunOpts};
use crate::rng::Rng;
use serde_json::{json, Value};
use std::collections::BTreeMap;
use std::path::Path;

#[derive(Clone, Debug)]
pub struct DJob {
    pub file: String,
    pub edit: Edit,
    pub cell: String,
    pub level: u64,
    pub e2e: bool,
    pub closure: bool,
    pub cost: usize,
}

/// jobs whose edit is an option variation are not compared with the intact conversion
/// (another legal option value may legitimately drop an optional link)
pub fn is_option_variation(e: &Edit) -> bool {
    !matches!(e, Edit::DefRenamed { .. } | Edit::DefRemoved { .. } | Edit::RefRenamed { .. } | Edit::Intact)
}

impl DJob {
    pub fn to_json(&self) -> Value {
        json!({"t":"disk","file":self.file,"edit":self.edit,"level":self.level,"e2e":self.e2e,"closure":self.closure,
            "no_lost_links": is_option_variation(&self.edit),
            // name faults: no untouched element may end up referring to an element of another name
            "retarget_oracle": self.closure && matches!(self.edit, Edit::DefRenamed { .. } | Edit::DefRemoved { .. } | Edit::RefRenamed { .. } | Edit::RenameQuoted { .. } | Edit::RenameQuotedUnicode { .. } | Edit::BlockRemoved { .. }),
            // edits that leave the block structure of the text alone: the links the text spells
            // out can be read from it and must be in the model
            "text_oracle": self.closure && matches!(self.edit, Edit::Intact | Edit::ValueSwap { .. } | Edit::DefRenamed { .. } | Edit::DefRemoved { .. } | Edit::RefRenamed { .. } | Edit::RenameQuoted { .. } | Edit::RenameQuotedUnicode { .. } | Edit::RefRetarget { .. } | Edit::ZerosOn { .. } | Edit::RenameEverywhere { .. } | Edit::NumOor { .. } | Edit::NumToText { .. }),
            // level 0 = the conversion API without the catalogue merge (ctehexml::parse / Data::new alone)
            "no_catalog": self.level == 0,
            // conversions that include the export step also check that the export loads back equal
            "roundtrip": self.level >= 2 || self.e2e})
    }
}

pub fn jobs_for(file: &CorpusFile, variants: Vec<Variant>, level: u64, e2e: bool, closure: bool) -> Vec<DJob> {
    let cost = file.text.len();
    variants
        .into_iter()
        .map(|v| DJob {
            file: file.rel.clone(),
            edit: v.edit,
            cell: v.cell,
            level,
            e2e,
            closure,
            cost,
        })
        .collect()
}

/// Seeded stratified sample: up to `per_cell` variants of every cell, cheapest files
/// preferred with probability 3/4 so that the quick tier stays quick while every cell of
/// (file kind x block type x attribute x edit kind) is still hit.
pub fn stratified(jobs: Vec<DJob>, per_cell: usize, rng: &mut Rng) -> Vec<DJob> {
    let mut cells: BTreeMap<String, Vec<DJob>> = BTreeMap::new();
    for j in jobs {
        cells.entry(j.cell.clone()).or_default().push(j);
    }
    let mut out = vec![];
    for (_, mut v) in cells {
        if v.len() <= per_cell {
            out.extend(v);
            continue;
        }
        rng.shuffle(&mut v);
        // stable partition: cheaper half first for 3 of 4 picks
        let mut by_cost = v.clone();
        by_cost.sort_by_key(|j| j.cost);
        let cheap: Vec<DJob> = by_cost[..by_cost.len() / 2].to_vec();
        let mut picked: Vec<DJob> = vec![];
        let mut ci = 0;
        let mut vi = 0;
        while picked.len() < per_cell {
            let take_cheap = picked.len() % 4 != 3 && ci < cheap.len();
            let cand = if take_cheap {
                ci += 1;
                cheap[ci - 1].clone()
            } else if vi < v.len() {
                vi += 1;
                v[vi - 1].clone()
            } else {
                break;
            };
            if !picked
                .iter()
                .any(|p| p.file == cand.file && p.edit == cand.edit)
            {
                picked.push(cand);
            }
        }
        out.extend(picked);
    }
    out
}

pub struct DiskResults {
    pub jobs: Vec<DJob>,
    pub outcomes: Vec<Outcome>,
}

/// Run the jobs in worker processes; chunks never mix files (the worker caches one file).
pub fn run(jobs: Vec<DJob>, engine_timeout_ms: u64, scratch: &Path) -> DiskResults {
    let mut order: Vec<usize> = (0..jobs.len()).collect();
    order.sort_by(|a, b| jobs[*a].file.cmp(&jobs[*b].file).then(a.cmp(b)));
    let mut chunks: Vec<(usize, Chunk)> = vec![];
    let mut cur: Vec<(usize, Value)> = vec![];
    let mut cur_file = String::new();
    let mut cur_cost = 0usize;
    let budget = 40_000_000usize; // bytes of text parsed per worker process
    for i in order {
        let j = &jobs[i];
        let jcost = j.cost * if j.level >= 2 || j.e2e { 20 } else { 1 };
        if !cur.is_empty() && (j.file != cur_file || cur_cost + jcost > budget) {
            chunks.push((
                cur_cost,
                Chunk {
                    env: vec![],
                    jobs: std::mem::take(&mut cur),
                },
            ));
            cur_cost = 0;
        }
        cur_file = j.file.clone();
        cur_cost += jcost;
        cur.push((i, j.to_json()));
    }
    if !cur.is_empty() {
        chunks.push((cur_cost, Chunk { env: vec![], jobs: cur }));
    }
    // longest first
    chunks.sort_by(|a, b| b.0.cmp(&a.0));
    let opts = RunOpts {
        engine: "disk".into(),
        workers: orch::n_workers(),
        job_timeout_ms: engine_timeout_ms,
        mem_mb: 3072,
        use_shim: false,
    };
    let res = orch::run_chunks(chunks.into_iter().map(|c| c.1).collect(), &opts, scratch);
    let mut outcomes = Vec::with_capacity(jobs.len());
    for i in 0..jobs.len() {
        outcomes.push(res.get(&i).cloned().unwrap_or_else(|| Outcome::Abort {
            status: { crate::orch::note_harness_error("job lost by the orchestrator"); "job lost".into() },
            stderr_tail: String::new(),
        }));
    }
    DiskResults { jobs, outcomes }
}

/// Order used to pick the representative (replay) case of a violation group: smallest
/// file, earliest line, simplest edit kind.
pub fn simplicity(j: &DJob) -> (usize, usize, usize, usize) {
    let kind_rank = match j.edit {
        Edit::Intact => 0,
        Edit::DelLine { .. } => 1,
        Edit::TruncAfter { .. } => 2,
        Edit::DupLine { .. } => 3,
        Edit::BlockRemoved { .. } | Edit::DefRemoved { .. } => 4,
        Edit::RenameQuoted { .. } | Edit::RenameQuotedUnicode { .. } | Edit::DefRenamed { .. } | Edit::RefRenamed { .. } => 5,
        Edit::NumToText { .. } => 6,
        Edit::CloneDamaged { .. } => 9,
        Edit::NumOor { .. } => 7,
        _ => 8,
    };
    (
        (j.level as usize) + if j.e2e { 2 } else { 0 },
        j.cost,
        kind_rank,
        j.edit.line().unwrap_or(0),
    )
}
