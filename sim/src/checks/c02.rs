//! C02 - converted models are referentially closed, or conversion fails with an error.

use super::diskrun::{self, DJob};
use crate::corpus::{self, FileKind};
use crate::diskfault::{self, Edit};
use crate::orch::{Outcome, Scratch};
use crate::report::{self, Evidence, Report, Violation};
use crate::rng::{self, Rng};
use serde_json::{json, Map, Value};
use std::collections::{BTreeMap, BTreeSet, HashSet};
use std::time::Instant;

fn strs(v: &Value) -> Vec<String> {
    v.as_array()
        .map(|a| a.iter().filter_map(|x| x.as_str().map(|s| s.to_string())).collect())
        .unwrap_or_default()
}

/// Violation keys of one outcome (empty when the property held for this case).
pub fn violation_keys(o: &Outcome, job: &DJob) -> Vec<(Value, String)> {
    let mut out = vec![];
    if let Outcome::Result(v) = o {
        if v["class"] == "ok" && v["model"] == true {
            let fault = job.edit.kind_name();
            for k in strs(&v["broken_kinds"]) {
                out.push((
                    json!({"class":"not_closed","link":k}),
                    format!("fault {} -> Ok(model) with {}", fault, strs(&v["broken"]).join("; ")),
                ));
            }
            for k in strs(&v["lost_kinds"]) {
                let remaining = match k.as_str() {
                    "spaces.loads" => v["n_space_conditions_blocks"].as_u64(),
                    "spaces.thermostat" => v["n_system_conditions_blocks"].as_u64(),
                    _ => None,
                };
                let when = match remaining {
                    Some(0) => "no definition block of that kind left in the project",
                    Some(_) => "other definition blocks of that kind remain",
                    None => "-",
                };
                out.push((
                    json!({"class":"link_lost","link":k,"when":when}),
                    format!(
                        "fault {} -> Ok(model) in which a link present in the intact conversion is now missing: {}",
                        fault,
                        strs(&v["lost"]).join("; ")
                    ),
                ));
            }
            for k in strs(&v["retargeted_kinds"]) {
                out.push((
                    json!({"class":"broken_reference_replaced","link":k}),
                    format!(
                        "fault {} -> Ok(model) in which an untouched element now refers to an element of another name: {}",
                        fault,
                        strs(&v["retargeted"]).join("; ")
                    ),
                ));
            }
            if v["check_n"].as_u64().unwrap_or(0) > 0 && strs(&v["broken_kinds"]).is_empty() {
                out.push((
                    json!({"class":"checker_warns","link":"check() not empty on a model the closure predicate accepts"}),
                    format!("fault {} -> check() returned {} warnings", fault, v["check_n"]),
                ));
            }
        }
    }
    out
}

fn replay_one(path: &str) -> i32 {
    let doc = report::read_replay(std::path::Path::new(path));
    let job = doc["job"].clone();
    let want = doc["violation_key"].clone();
    let scratch = Scratch::new("c02r");
    if job["dbfaults"] == true {
        let out = crate::orch::run_chunks(
            vec![crate::orch::Chunk { env: vec![], jobs: vec![(0, job.clone())] }],
            &crate::orch::RunOpts { engine: "disk".into(), workers: 1, job_timeout_ms: 120_000, mem_mb: 3072, use_shim: false },
            &scratch.dir,
        );
        if let Some(Outcome::Result(v)) = out.get(&0) {
            for c in v["cases"].as_array().cloned().unwrap_or_default() {
                if c["coll"] == doc["case"]["coll"] && c["name"] == doc["case"]["name"] && c["class"] == "ok" && !strs(&c["broken_kinds"]).is_empty() {
                    println!("VIOLATION property=C02 replay={}", path);
                    println!("  reproduced key={} detail={}", want, strs(&c["broken"]).join("; "));
                    return 1;
                }
            }
        }
        println!("replay did not reproduce");
        return 0;
    }
    let dj = DJob {
        file: job["file"].as_str().unwrap_or("").to_string(),
        edit: serde_json::from_value(job["edit"].clone()).unwrap_or(Edit::Intact),
        cell: doc["cell"].as_str().unwrap_or("").to_string(),
        level: 1,
        e2e: false,
        closure: true,
        cost: 1,
    };
    let res = diskrun::run(vec![dj.clone()], super::c19::L1_TIMEOUT_MS, &scratch.dir);
    let keys = violation_keys(&res.outcomes[0], &dj);
    if let Some((k, d)) = keys.iter().find(|(k, _)| *k == want).or(keys.first()) {
        println!("VIOLATION property=C02 replay={}", path);
        println!("  reproduced key={} detail={}", k, d);
        1
    } else {
        println!("replay did not reproduce: outcome {:?}", res.outcomes[0]);
        0
    }
}

pub fn run(tier: &str, seed: u64, replay: Option<String>) -> i32 {
    if let Some(p) = replay {
        return replay_one(&p);
    }
    let t0 = Instant::now();
    let thorough = tier == "thorough";
    let scratch = Scratch::new("c02");
    let mut files = corpus::load(&[FileKind::Ctehexml, FileKind::Cte]);
    let mut rng = Rng::new(rng::derive(seed, "C02", 0));
    // projects printed by the generator: a few go through every fault below, many more are
    // converted as they are (closure of the intact generated project)
    let n_shipped = files.len();
    let gen_base = rng.next_u64() % 1_000_000;
    files.extend(corpus::generated((0..if thorough { 40 } else { 8 }).map(|k| gen_base + k)));
    let mut gen_intact = corpus::generated((0..if thorough { 3000 } else { 250 }).map(|k| gen_base + 1000 + k));
    gen_intact.extend(corpus::generated((0..6).map(|k| crate::projgen::SELF_CONTAINED_FROM + k)));

    let mut jobs: Vec<DJob> = vec![];
    for f in &files {
        jobs.extend(diskrun::jobs_for(
            f,
            vec![diskfault::Variant {
                edit: Edit::Intact,
                cell: format!("{}|intact", f.kind.as_str()),
            }],
            1,
            false,
            true,
        ));
    }
    for f in &gen_intact {
        jobs.extend(diskrun::jobs_for(
            f,
            vec![diskfault::Variant { edit: Edit::Intact, cell: "ctehexml|generated|intact".into() }],
            1,
            false,
            true,
        ));
    }
    let n_intact = jobs.len();
    let mut all = vec![];
    for f in &files {
        all.extend(diskrun::jobs_for(f, diskfault::enumerate_c02(f), 1, false, true));
    }
    let space_total = all.len();
    let n_cells = all.iter().map(|j| j.cell.clone()).collect::<BTreeSet<_>>().len();
    let selected = if thorough {
        all
    } else {
        diskrun::stratified(all, 40, &mut rng)
    };
    jobs.extend(selected);
    // generated projects: option variations of the shipped .ctehexml files must be closed too
    let dict = crate::optvar::Dictionary::build();
    let mut opt_jobs: Vec<DJob> = vec![];
    for f in files.iter().filter(|f| f.kind == FileKind::Ctehexml) {
        let mut seen = HashSet::new();
        for sl in crate::optvar::slots(&f.text) {
            if !seen.insert((sl.tag.clone(), sl.value.clone())) {
                continue;
            }
            for alt in dict.alternatives(&sl.value) {
                opt_jobs.push(DJob {
                    file: f.rel.clone(),
                    edit: Edit::ValueSwap { line: sl.line, start: sl.start, end: sl.end, text: alt.clone(), flags_on: false },
                    cell: format!("optvar|{}|{}->{}", sl.tag, sl.value, alt),
                    level: 1,
                    e2e: false,
                    closure: true,
                    cost: f.text.len(),
                });
            }
        }
    }
    let opt_picked = diskrun::stratified(opt_jobs, if thorough { 4 } else { 1 }, &mut rng);
    let n_opt = opt_picked.len();
    jobs.extend(opt_picked);
    // generated projects: single-line damage (the C19 fault space) - whatever the converter
    // still accepts must be closed as well (closure clause only)
    let mut line_jobs: Vec<DJob> = vec![];
    for f in &files {
        let mut js = diskrun::jobs_for(f, diskfault::enumerate_c19(f, false), 1, false, true);
        js.retain(|j| matches!(j.edit, Edit::DelLine { .. } | Edit::DupLine { .. } | Edit::RenameQuoted { .. } | Edit::NumToText { .. } | Edit::NumOor { .. } | Edit::BlockRemoved { .. } | Edit::RefRetarget { .. }));
        line_jobs.extend(js);
    }
    // generated projects: one block written twice (every block type)
    for f in &files {
        let lines = diskfault::split_lines(&f.text);
        for b in diskfault::scan_blocks(&lines) {
            line_jobs.push(DJob {
                file: f.rel.clone(),
                edit: Edit::BlockDuplicated { line: b.start },
                cell: format!("{}|{}|block_duplicated", f.kind.as_str(), b.btype),
                level: 1,
                e2e: false,
                closure: true,
                cost: f.text.len(),
            });
        }
    }
    // generated projects: decimal values off the two-decimal grid (12.716375 instead of 12.5)
    for f in &files {
        let mut js = diskrun::jobs_for(f, diskfault::enumerate_c19(f, false), 1, false, true);
        js.retain(|j| matches!(j.edit, Edit::NumToText { .. }));
        for mut j in js {
            if let Edit::NumToText { line, tok } = j.edit {
                j.edit = Edit::NumFine { line, tok };
                j.cell = j.cell.replace("disk.number_to_text", "proj.number_with_more_digits");
                line_jobs.push(j);
            }
        }
    }
    // generated projects: a used definition and a used twin of it that differs in one value (two
    // elements that must not share an id, whatever value it is)
    for f in &files {
        let lines = diskfault::split_lines(&f.text);
        for b in diskfault::scan_blocks(&lines) {
            if !matches!(b.btype.as_str(), "MATERIAL" | "GLASS-TYPE" | "NAME-FRAME" | "GAP" | "LAYERS") {
                continue;
            }
            for attr in 0..8 {
                line_jobs.push(DJob {
                    file: f.rel.clone(),
                    edit: Edit::TwinUsed { line: b.start, attr },
                    cell: format!("{}|{}|twin_used|attr{}|{}", f.kind.as_str(), b.btype, attr, b.start % 4),
                    level: 1,
                    e2e: false,
                    closure: true,
                    cost: f.text.len(),
                });
            }
        }
    }
    // generated projects: a block pasted under another parent (the same name in two spaces /
    // walls / floors)
    for f in &files {
        let lines = diskfault::split_lines(&f.text);
        for b in diskfault::scan_blocks(&lines) {
            if !matches!(b.btype.as_str(), "WINDOW" | "EXTERIOR-WALL" | "INTERIOR-WALL" | "UNDERGROUND-WALL" | "ROOF" | "SPACE") {
                continue;
            }
            line_jobs.push(DJob {
                file: f.rel.clone(),
                edit: Edit::BlockPastedElsewhere { line: b.start },
                cell: format!("{}|{}|block_pasted_elsewhere|{}", f.kind.as_str(), b.btype, if f.kind == FileKind::Ctehexml { f.rel.as_str() } else { "" }),
                level: 1,
                e2e: false,
                closure: true,
                cost: f.text.len(),
            });
        }
    }
    // generated projects: the dormant features of one block switched on (every attribute that is
    // 0 gets the same positive value: both side fins and the overhang of a window, offsets, ...)
    for f in &files {
        let lines = diskfault::split_lines(&f.text);
        for b in diskfault::scan_blocks(&lines) {
            if !matches!(b.btype.as_str(), "WINDOW" | "EXTERIOR-WALL" | "INTERIOR-WALL" | "UNDERGROUND-WALL" | "ROOF" | "SPACE" | "FLOOR" | "BUILDING-SHADE" | "POLYGON") {
                continue;
            }
            for val in ["0.5", "1"] {
                line_jobs.push(DJob {
                    file: f.rel.clone(),
                    edit: Edit::ZerosOn { line: b.start, value: val.to_string() },
                    cell: format!("{}|{}|zeros_on={}|{}", f.kind.as_str(), b.btype, val, if b.btype == "WINDOW" { f.rel.as_str() } else { "" }),
                    level: 1,
                    e2e: false,
                    closure: true,
                    cost: f.text.len(),
                });
            }
        }
    }
    // generated projects: a space that keeps no enclosure of its own (HULC defines a partition in
    // only one of the two spaces it separates, so other walls may still name it as NEXT-TO)
    for f in &files {
        let lines = diskfault::split_lines(&f.text);
        for b in diskfault::scan_blocks(&lines).iter().filter(|b| b.btype == "SPACE") {
            line_jobs.push(DJob {
                file: f.rel.clone(),
                edit: Edit::SpaceEmptied { line: b.start },
                cell: format!("{}|SPACE|space_emptied|{}", f.kind.as_str(), f.rel),
                level: 1,
                e2e: false,
                closure: true,
                cost: f.text.len(),
            });
        }
    }
    // generated projects: an unused copy of a profile / construction with everything it refers
    // to, damaged by one line edit inside the copy (damage in definitions nobody uses)
    let mut n_clone_space = 0usize;
    let mut clone_jobs: Vec<DJob> = vec![];
    for f in &files {
        let lines = diskfault::split_lines(&f.text);
        let roots: Vec<usize> = diskfault::scan_blocks(&lines)
            .iter()
            .filter(|b| matches!(b.btype.as_str(), "SPACE-CONDITIONS" | "SYSTEM-CONDITIONS" | "CONSTRUCTION" | "GAP" | "SCHEDULE-PD"))
            .map(|b| b.start)
            .collect();
        // a few roots per file, seeded
        let mut roots = roots;
        rng.shuffle(&mut roots);
        // every profile (there are few), a few of the other roots
        let (mut profiles, mut others): (Vec<usize>, Vec<usize>) = roots.into_iter().partition(|r| lines[*r].contains("-CONDITIONS"));
        profiles.truncate(if thorough { 40 } else { 4 });
        others.truncate(if thorough { 12 } else { 1 });
        let mut roots = profiles;
        roots.extend(others);
        for root in roots {
            if let Some((t, (a, b))) = diskfault::clone_subgraph(&f.text, root) {
                let cf = crate::corpus::CorpusFile { kind: f.kind, rel: f.rel.clone(), text: t };
                for v in diskfault::enumerate_c19(&cf, false) {
                    let l = v.edit.line().unwrap_or(usize::MAX);
                    if l < a || l > b {
                        continue;
                    }
                    if !matches!(v.edit, Edit::DelLine { .. } | Edit::DupLine { .. } | Edit::NumOor { .. } | Edit::NumToText { .. }) {
                        continue;
                    }
                    n_clone_space += 1;
                    clone_jobs.push(DJob {
                        file: f.rel.clone(),
                        edit: Edit::CloneDamaged { line: root, inner: Box::new(v.edit.clone()) },
                        cell: format!("clone|{}", v.cell),
                        level: 1,
                        e2e: false,
                        closure: true,
                        cost: f.text.len(),
                    });
                }
            }
        }
    }
    // the conversion API without the catalogue merge: intact files, and every GAP / CONSTRUCTION /
    // MATERIAL definition renamed consistently to the name of a catalogue entry of its kind
    // (a project may legally define its own element under a catalogue name)
    let mut n_nocat = 0usize;
    let mut nocat_jobs: Vec<DJob> = vec![];
    if let Ok(cat) = hulc::ctehexml::load_lider_catalog() {
        let cat_names: Vec<(&str, Vec<String>)> = vec![
            ("GAP", cat.wincons.keys().cloned().collect()),
            ("MATERIAL", cat.materials.keys().take(6).cloned().collect()),
            ("GLASS-TYPE", cat.glasses.keys().take(4).cloned().collect()),
            ("NAME-FRAME", cat.frames.keys().take(4).cloned().collect()),
        ];
        for f in &files {
            line_jobs.push(DJob { file: f.rel.clone(), edit: Edit::Intact, cell: format!("nocat|intact|{}", f.rel), level: 0, e2e: false, closure: true, cost: f.text.len() });
            let lines = diskfault::split_lines(&f.text);
            let mut per_type: BTreeMap<String, usize> = BTreeMap::new();
            let mut blocks = diskfault::scan_blocks(&lines);
            rng.shuffle(&mut blocks);
            for b in blocks {
                if let Some((_, names)) = cat_names.iter().find(|(t, _)| *t == b.btype) {
                    // a few definitions of each kind per file (all of them in thorough)
                    let seen = per_type.entry(b.btype.clone()).or_insert(0);
                    *seen += 1;
                    if !thorough && *seen > 2 {
                        continue;
                    }
                    for (k, n) in names.iter().enumerate() {
                        if !thorough && k >= 3 {
                            break;
                        }
                        n_nocat += 1;
                        for level in [0u64, 1] {
                            nocat_jobs.push(DJob {
                                file: f.rel.clone(),
                                edit: Edit::RenameEverywhere { line: b.start, new_name: n.clone() },
                                cell: format!("renamed_to_catalogue_name|{}|{}", b.btype, level),
                                level,
                                e2e: false,
                                closure: true,
                                cost: f.text.len(),
                            });
                        }
                    }
                }
            }
        }
    }
    // generated projects: two definitions whose names differ only in case or in repeated blanks,
    // the used one under the new spelling and an unused twin under the old one
    let mut n_near = 0usize;
    for f in &files {
        let lines = diskfault::split_lines(&f.text);
        let mut per_type: BTreeMap<String, usize> = BTreeMap::new();
        let mut blocks = diskfault::scan_blocks(&lines);
        rng.shuffle(&mut blocks);
        for b in blocks {
            if !matches!(b.btype.as_str(), "GAP" | "MATERIAL" | "GLASS-TYPE" | "NAME-FRAME" | "LAYERS" | "SPACE-CONDITIONS" | "SYSTEM-CONDITIONS" | "SCHEDULE-PD" | "WEEK-SCHEDULE-PD" | "DAY-SCHEDULE-PD") {
                continue;
            }
            let seen = per_type.entry(b.btype.clone()).or_insert(0);
            *seen += 1;
            if *seen > (if thorough { 12 } else { 2 }) {
                continue;
            }
            for how in ["blank2", "lower", "upper", "trail"] {
                if crate::engines::procsim::near_name(&b.name, how).is_none() {
                    continue;
                }
                n_near += 1;
                nocat_jobs.push(DJob {
                    file: f.rel.clone(),
                    edit: Edit::NearNamePair { line: b.start, how: how.to_string() },
                    cell: format!("near_identical_names|{}|{}", b.btype, how),
                    level: 1,
                    e2e: false,
                    closure: true,
                    cost: f.text.len(),
                });
            }
        }
    }
    let clone_budget = if thorough { 60_000 } else { 4_500 };
    if clone_jobs.len() > clone_budget {
        rng.shuffle(&mut clone_jobs);
        clone_jobs.truncate(clone_budget);
    }
    let n_clone = clone_jobs.len();
    let mut line_picked = diskrun::stratified(line_jobs, if thorough { 25 } else { 1 }, &mut rng);
    line_picked.extend(clone_jobs);
    line_picked.extend(nocat_jobs);
    let n_line = line_picked.len();
    jobs.extend(line_picked);
    eprintln!("[C02] + {} generated projects (option variations) + {} (single-line damage)", n_opt, n_line);
    eprintln!(
        "[C02] fault space {} single faults in {} cells; running {} jobs",
        space_total,
        n_cells,
        jobs.len()
    );
    let r = diskrun::run(jobs, super::c19::L1_TIMEOUT_MS, &scratch.dir);
    // ---- data-level faults: one referenced definition removed from the merged database
    // (project + LIDER catalogue) the converter reads
    let db_files: Vec<&crate::corpus::CorpusFile> = files.iter().filter(|f| thorough || f.kind == FileKind::Ctehexml || rng.chance(1, 4)).collect();
    let db_chunks: Vec<crate::orch::Chunk> = db_files
        .iter()
        .enumerate()
        .map(|(i, f)| crate::orch::Chunk { env: vec![], jobs: vec![(i, json!({"t":"disk","dbfaults":true,"file":f.rel}))] })
        .collect();
    let db_out = crate::orch::run_chunks(
        db_chunks,
        &crate::orch::RunOpts { engine: "disk".into(), workers: crate::orch::n_workers(), job_timeout_ms: 120_000, mem_mb: 3072, use_shim: false },
        &scratch.dir,
    );
    let mut db_cases = 0u64;
    let mut db_groups: Vec<(Value, String, Value)> = vec![];
    for (i, f) in db_files.iter().enumerate() {
        if let Some(Outcome::Result(v)) = db_out.get(&i) {
            for c in v["cases"].as_array().cloned().unwrap_or_default() {
                db_cases += 1;
                if c["class"] == "ok" {
                    for k in strs(&c["broken_kinds"]) {
                        db_groups.push((
                            json!({"class":"not_closed","link":k,"fault":"definition removed from the merged database"}),
                            format!("{} {:?} removed -> Ok(model) with {}", c["coll"].as_str().unwrap_or(""), c["name"].as_str().unwrap_or(""), strs(&c["broken"]).join("; ")),
                            json!({"engine":"diskfault(db)","job":{"t":"disk","dbfaults":true,"file":f.rel},"case":{"coll":c["coll"],"name":c["name"]}}),
                        ));
                    }
                    if c["check_n"].as_u64().unwrap_or(0) > 0 && strs(&c["broken_kinds"]).is_empty() {
                        db_groups.push((
                            json!({"class":"checker_warns","link":"check() not empty","fault":"definition removed from the merged database"}),
                            format!("{} {:?} removed -> check() warns", c["coll"], c["name"]),
                            json!({"engine":"diskfault(db)","job":{"t":"disk","dbfaults":true,"file":f.rel},"case":{"coll":c["coll"],"name":c["name"]}}),
                        ));
                    }
                }
            }
        }
    }
    eprintln!("[C02] + {} data-level definition removals over {} files", db_cases, db_files.len());

    let mut groups: BTreeMap<String, (Value, usize, DJob, String)> = BTreeMap::new();
    let mut classes: BTreeMap<String, u64> = BTreeMap::new();
    let mut fired: BTreeMap<String, u64> = BTreeMap::new();
    let mut cells_hit: BTreeSet<String> = BTreeSet::new();
    let mut hashes: HashSet<String> = HashSet::new();
    let mut distinct = 0u64;
    let mut evaluations = 0u64;
    let mut ok_models_after_fault = 0u64;
    let mut gen_classes: BTreeMap<String, u64> = BTreeMap::new();
    let mut intact_report = vec![];
    let mut harness_errors = vec![];
    let mut samples = vec![];
    let mut crash_other = 0u64;
    for (i, (j, o)) in r.jobs.iter().zip(r.outcomes.iter()).enumerate() {
        let cls = match o {
            Outcome::Result(v) => v["class"].as_str().unwrap_or("?").to_string(),
            Outcome::Abort { .. } => "abort".into(),
            Outcome::Timeout => "hang".into(),
        };
        if cls == "n/a" {
            continue;
        }
        evaluations += 1;
        if cls == "harness_error" {
            harness_errors.push(format!("{:?}", o));
        }
        if cls == "panic" || cls == "abort" || cls == "hang" {
            crash_other += 1; // judged by C19, not here
        }
        *classes.entry(cls.clone()).or_insert(0) += 1;
        if let Outcome::Result(v) = o {
            if v["changed"] == true {
                *fired.entry(j.edit.kind_name().to_string()).or_insert(0) += 1;
                cells_hit.insert(j.cell.clone());
                if v["referenced"] == true
                    && hashes.insert(format!("{}|{}", j.file, v["hash"].as_str().unwrap_or("")))
                {
                    distinct += 1;
                }
                if cls == "ok" {
                    ok_models_after_fault += 1;
                }
            }
            if i < n_intact && j.file.starts_with("gen/") {
                *gen_classes.entry(cls.clone()).or_insert(0u64) += 1;
            } else if i < n_intact {
                intact_report.push(json!({"file": j.file, "class": cls, "broken": v["broken_n"], "check": v["check_n"]}));
            }
        }
        for (key, detail) in violation_keys(o, j) {
            let e = groups
                .entry(key.to_string())
                .or_insert_with(|| (key.clone(), 0, j.clone(), detail.clone()));
            e.1 += 1;
            if diskrun::simplicity(j) < diskrun::simplicity(&e.2) {
                e.2 = j.clone();
                e.3 = detail;
            }
        }
        if samples.len() < 8 && i % 1511 == 7 {
            samples.push(json!({"job": j.to_json(), "cell": j.cell, "outcome_class": cls}));
        }
    }
    if samples.is_empty() {
        if let Some(j) = r.jobs.last() {
            samples.push(json!({"job": j.to_json(), "cell": j.cell}));
        }
    }
    let mut violations: Vec<Violation> = groups
        .into_values()
        .map(|(key, count, job, detail)| Violation {
            key,
            count,
            replay: json!({"engine":"diskfault","job": job.to_json(), "cell": job.cell}),
            detail,
        })
        .collect();
    let mut dbg: BTreeMap<String, Violation> = BTreeMap::new();
    for (key, detail, replay) in db_groups {
        let e = dbg.entry(key.to_string()).or_insert(Violation { key, count: 0, replay, detail });
        e.count += 1;
    }
    violations.extend(dbg.into_values());
    evaluations += db_cases;
    let rep = Report {
        property: "C02".into(),
        tier: tier.into(),
        seed,
        level: "fault_enumeration".into(),
        violations,
        harness_errors: harness_errors.clone(),
    };
    let verdict = rep.conclude();
    let wall = t0.elapsed().as_secs_f64();
    let mut extra = Map::new();
    extra.insert("fault_space_size".into(), json!(space_total));
    extra.insert("cells".into(), json!(n_cells));
    extra.insert("cells_hit".into(), json!(cells_hit.len()));
    extra.insert("data_level_definition_removals".into(), json!(db_cases));
    extra.insert("generated_projects_option_variation".into(), json!(n_opt));
    extra.insert("generated_projects_single_line_damage".into(), json!(n_line));
    extra.insert("unused_copy_damage_space".into(), json!(n_clone_space));
    extra.insert("unused_copy_damage_run".into(), json!(n_clone));
    extra.insert("definitions_renamed_to_catalogue_names".into(), json!(n_nocat));
    extra.insert("near_identical_name_pairs".into(), json!(n_near));
    extra.insert("fault_kinds_fired".into(), json!(fired));
    extra.insert("outcome_classes".into(), json!(classes));
    extra.insert("models_returned_after_a_fault".into(), json!(ok_models_after_fault));
    extra.insert("crashes_left_to_C19".into(), json!(crash_other));
    extra.insert("known_findings_hit".into(), json!(verdict.known_hit));
    extra.insert("intact_files".into(), json!(intact_report));
    extra.insert("generated_projects_intact_outcomes".into(), json!(gen_classes));
    extra.insert("generated_projects_under_every_fault".into(), json!(files.len() - n_shipped));
    extra.insert("project_generator".into(), json!("sim/src/projgen.rs: the geometry, glazing library and shades of cubo.ctehexml replaced by a printed building (1-3 floors x 1-3 spaces, basements, party walls, unconditioned / uninhabited spaces, multipliers, 0-2 windows per wall with overhangs and equal or different side fins, 0-4 extra window constructions sharing glasses and frames, 0-2 building shades, rotated building); pure function of one integer"));
    extra.insert("seeds_per_hour".into(), json!((evaluations as f64 / wall.max(0.001) * 3600.0) as u64));
    extra.insert("simulated_time".into(), json!("n/a - no timers or deadlines in the system"));
    extra.insert("components".into(), report::components());
    Evidence {
        property: "C02".into(),
        tier: tier.into(),
        seed,
        level: "fault_enumeration".into(),
        evaluations,
        distinct_nontrivial: distinct,
        rule: "for every shipped .ctehexml and legacy .cte file and a seeded set of generated projects (plus many more generated projects converted intact): every definition block of a referable type (MATERIAL, LAYERS, CONSTRUCTION, GLASS-TYPE, NAME-FRAME, GAP, POLYGON, FLOOR, SPACE, SPACE-/SYSTEM-CONDITIONS, DAY-/WEEK-/SCHEDULE-PD) renamed and removed, and every quoted name in a reference attribute renamed - one fault per case; thorough runs all, quick 40 per (file kind x block type x fault kind) cell. A returned model must be closed (ids unique per collection; every link resolves to exactly one element of the right collection and is not nil; check() empty) and must not have lost an optional link that the intact conversion of the same file had. Non-trivial = the faulted text differs, the touched name is referenced elsewhere (or is itself a reference), distinct by content hash".into(),
        samples,
        exhaustive: thorough,
        extra,
        assumptions: vec![
            "single faults only: the property speaks of one renamed or removed definition".into(),
            "panic/abort/hang outcomes are counted but judged by C19, so one defect raises one alarm".into(),
            "closure predicate is evaluated on the serde_json value of the returned model (about 200 lines, independent of the typed accessors)".into(),
        ],
        wall_s: wall,
        violations: verdict.new_violations as u64,
    }
    .write();
    eprintln!(
        "[C02] {} evaluations, {} distinct nontrivial, {} models returned after a fault, {} new violations, {} known, {:.1}s",
        evaluations, distinct, ok_models_after_fault, verdict.new_violations, verdict.known_hit.len(), wall
    );
    if !harness_errors.is_empty() {
        return 2;
    }
    if verdict.new_violations > 0 {
        1
    } else {
        0
    }
}
