//! Runs (edit, recompute) steps in worker processes.  Steps that were skipped because the
//! process had to be abandoned (a computation unwound / a global was poisoned) are
//! re-dispatched to a fresh process; a job whose worker died is split into single steps so
//! the death is attributed to one step.

use crate::orch::{self, Chunk, Outcome, RunOpts};
use serde_json::{json, Value};
use std::path::Path;

#[derive(Clone, Debug)]
pub enum StepOutcome {
    Result(Value),
    Abort(String),
    Timeout,
    /// the healthy probe model itself failed in a fresh process before any fault
    ProbeRefFailed(Value),
}

pub struct ModelRunCfg {
    pub mode: String,
    pub probe: String,
    pub with_indicators: bool,
    pub steps_per_job: usize,
    pub job_timeout_ms: u64,
    pub env: Vec<(String, String)>,
    pub use_shim: bool,
}

pub fn run_steps(steps: &[Value], cfg: &ModelRunCfg, scratch: &Path) -> Vec<StepOutcome> {
    let mut out: Vec<Option<StepOutcome>> = vec![None; steps.len()];
    // (indices) per job
    let mut pending: Vec<Vec<usize>> = vec![];
    {
        // group consecutive steps with the same base so a worker caches it
        let mut order: Vec<usize> = (0..steps.len()).collect();
        order.sort_by(|a, b| {
            steps[*a]["base"]
                .as_str()
                .unwrap_or("")
                .cmp(steps[*b]["base"].as_str().unwrap_or(""))
                .then(a.cmp(b))
        });
        let mut cur: Vec<usize> = vec![];
        let mut cur_base = String::new();
        for i in order {
            let b = steps[i]["base"].as_str().unwrap_or("").to_string();
            if !cur.is_empty() && (b != cur_base || cur.len() >= cfg.steps_per_job) {
                pending.push(std::mem::take(&mut cur));
            }
            cur_base = b;
            cur.push(i);
        }
        if !cur.is_empty() {
            pending.push(cur);
        }
    }
    let opts = RunOpts {
        engine: "model".into(),
        workers: orch::n_workers(),
        job_timeout_ms: cfg.job_timeout_ms,
        mem_mb: 3072,
        use_shim: cfg.use_shim,
    };
    let mut round = 0;
    while !pending.is_empty() && round < 64 && crate::orch::harness_errors().is_empty() {
        round += 1;
        let jobs: Vec<(usize, Value)> = pending
            .iter()
            .enumerate()
            .map(|(ji, idxs)| {
                (
                    ji,
                    json!({"t":"model","mode":cfg.mode,"probe":cfg.probe,"with_indicators":cfg.with_indicators,
                        "steps": idxs.iter().map(|i| steps[*i].clone()).collect::<Vec<_>>()}),
                )
            })
            .collect();
        // a few jobs per worker process: the process is the simulated long-lived consumer
        let chunks: Vec<Chunk> = orch::chunked(jobs, 4, cfg.env.clone());
        let res = orch::run_chunks(chunks, &opts, scratch);
        let mut next: Vec<Vec<usize>> = vec![];
        for (ji, idxs) in pending.iter().enumerate() {
            match res.get(&ji) {
                Some(Outcome::Result(v)) => {
                    if !v["probe_ref_failed"].is_null() {
                        for i in idxs {
                            out[*i] = Some(StepOutcome::ProbeRefFailed(v["probe_ref_failed"].clone()));
                        }
                        continue;
                    }
                    let rs = v["steps"].as_array().cloned().unwrap_or_default();
                    let mut redo = vec![];
                    for (k, i) in idxs.iter().enumerate() {
                        match rs.get(k) {
                            Some(r) if r["class"] == "skipped_after_taint" => redo.push(*i),
                            Some(r) => out[*i] = Some(StepOutcome::Result(r.clone())),
                            None => redo.push(*i),
                        }
                    }
                    if !redo.is_empty() {
                        if redo.len() == idxs.len() {
                            // no progress at all: split to guarantee termination
                            for i in redo {
                                next.push(vec![i]);
                            }
                        } else {
                            next.push(redo);
                        }
                    }
                }
                Some(Outcome::Abort { status, stderr_tail }) => {
                    if idxs.len() == 1 {
                        out[idxs[0]] = Some(StepOutcome::Abort(format!(
                            "{} | {}",
                            status,
                            stderr_tail.lines().last().unwrap_or("")
                        )));
                    } else {
                        for i in idxs {
                            next.push(vec![*i]);
                        }
                    }
                }
                Some(Outcome::Timeout) => {
                    if idxs.len() == 1 {
                        out[idxs[0]] = Some(StepOutcome::Timeout);
                    } else {
                        for i in idxs {
                            next.push(vec![*i]);
                        }
                    }
                }
                None => {
                    for i in idxs {
                        crate::orch::note_harness_error("job lost by the orchestrator");
                        out[*i] = Some(StepOutcome::Abort("job lost by the orchestrator".into()));
                    }
                }
            }
        }
        pending = next;
    }
    out.into_iter()
        .map(|o| o.unwrap_or(StepOutcome::Abort("step never completed".into())))
        .collect()
}
