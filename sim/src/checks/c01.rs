//! C01 - the export tool writes exactly the model JSON to standard output.

use super::diskrun::{self, DJob};
use crate::corpus::{self, FileKind};
use crate::diskfault::{self, Edit};
use crate::orch::{self, Chunk, Outcome, RunOpts, Scratch};
use crate::report::{self, Evidence, Report, Violation};
use crate::rng::{self, Rng};
use serde_json::{json, Map, Value};
use std::collections::{BTreeMap, BTreeSet, HashSet};
use std::time::Instant;

const FS_FAULTS: &[&str] = &[
    "missing_kyg",
    "missing_tbl",
    "extra_files",
    "two_projects",
    "empty_dir",
    "absent_dir",
    "file_not_dir",
    "wrong_case_ext",
    "only_side_files",
    "stale_output",
    "odd_dir_name",
    "stale_results",
    "stale_gains_table",
    "unicode_texts",
];
const ODD_NAMES: &[&str] = &["Proyecto [rev2]", "casa (copia) 1", "obra?", "edif*", "Año 2024 ñ", "a b\tc"];
const RUST_LOGS: &[Option<&str>] = &[None, None, Some("error"), Some("warn"), Some("info"), Some("debug"), Some("trace")];
const PATH_FORMS: &[&str] = &["abs", "abs", "rel", "dot_rel", "trailing_slash", "symlink", "dot", "file_arg", "symlink_dotdot", "redundant"];

fn env_case(rng: &mut Rng, projects: &[String], faults: bool) -> Value {
    let project = rng.pick(projects).clone();
    let tool = if rng.chance(7, 10) { "hulc2model" } else { "thor" };
    let mut fs: Vec<&str> = vec![];
    if faults && rng.chance(65, 100) {
        let n = if rng.chance(3, 4) { 1 } else { 2 };
        while fs.len() < n {
            let f = *rng.pick(FS_FAULTS);
            if !fs.contains(&f) {
                fs.push(f);
            }
        }
    }
    json!({
        "t": "env",
        "project": project,
        "tool": tool,
        "use_extra": tool == "hulc2model" && rng.chance(1, 2),
        "fs": fs,
        "odd_name": rng.pick(ODD_NAMES),
        "rust_log": rng.pick(RUST_LOGS),
        "path_form": rng.pick(PATH_FORMS),
        "hash_seed": rng.next_u64() % 1_000_000,
        "fake_time": if rng.chance(1, 2) { json!(978_307_200u64 + (rng.next_u64() % 1_000_000_000)) } else { Value::Null },
        "lang": rng.pick(&[None, Some("C"), Some("es_ES.UTF-8")]),
        "thor_r": rng.chance(1, 2),
        "thor_v": rng.below(3),
        "stdout_to": rng.pick(&["pipe", "pipe", "file", "file", "tty", "slow_pipe_stop", "dev_full", "closed_pipe"]),
        "args_variant": rng.pick(&["plain", "plain", "dup_flag", "unknown_opt"]),
        "out_form": rng.pick(&["abs", "abs", "rel", "rel_subdir"]),
    })
}

fn run_env(jobs: Vec<Value>, scratch: &std::path::Path) -> Vec<Outcome> {
    let n = jobs.len();
    let chunks: Vec<Chunk> = orch::chunked(jobs.into_iter().enumerate().collect(), 6, vec![("VERIF_HASH_SEED".to_string(), "0".to_string())]);
    let opts = RunOpts {
        engine: "env".into(),
        workers: orch::n_workers(),
        job_timeout_ms: 300_000,
        mem_mb: 0,
        use_shim: true,
    };
    let res = orch::run_chunks(chunks, &opts, scratch);
    (0..n)
        .map(|i| {
            res.get(&i).cloned().unwrap_or_else(|| Outcome::Abort {
                status: { crate::orch::note_harness_error("job lost by the orchestrator"); "job lost".into() },
                stderr_tail: String::new(),
            })
        })
        .collect()
}

fn env_keys(o: &Outcome) -> Vec<(Value, String)> {
    match o {
        Outcome::Result(v) => {
            let mut out = vec![];
            if let Some(ps) = v["problems"].as_array() {
                for p in ps {
                    out.push((
                        p.clone(),
                        format!(
                            "status={} stdout[..120]={:?} stderr tail={:?}",
                            v["status"],
                            v["stdout_head"].as_str().unwrap_or(""),
                            v["stderr_tail"].as_str().unwrap_or("")
                        ),
                    ));
                }
            }
            out
        }
        Outcome::Abort { status, .. } => vec![(
            json!({"class":"simulation_worker_died"}),
            format!("worker died: {}", status),
        )],
        Outcome::Timeout => vec![(json!({"class":"tool_hangs","tool":"?"}), "watchdog".into())],
    }
}

fn replay_one(path: &str) -> i32 {
    let doc = report::read_replay(std::path::Path::new(path));
    let want = doc["violation_key"].clone();
    let scratch = Scratch::new("c01r");
    let job = doc["job"].clone();
    let keys: Vec<(Value, String)> = if job["t"] == "env" {
        let o = run_env(vec![job], &scratch.dir);
        env_keys(&o[0])
    } else {
        let dj = DJob {
            file: job["file"].as_str().unwrap_or("").to_string(),
            edit: serde_json::from_value(job["edit"].clone()).unwrap_or(Edit::Intact),
            cell: String::new(),
            level: job["level"].as_u64().unwrap_or(2),
            e2e: job["e2e"].as_bool().unwrap_or(false),
            closure: false,
            cost: 1,
        };
        let r = diskrun::run(vec![dj], super::c19::L2_TIMEOUT_MS, &scratch.dir);
        lib_keys(&r.outcomes[0])
    };
    if let Some((k, d)) = keys.iter().find(|(k, _)| *k == want).or(keys.first()) {
        println!("VIOLATION property=C01 replay={}", path);
        println!("  reproduced key={} detail={}", k, d);
        1
    } else {
        println!("replay did not reproduce");
        0
    }
}

fn lib_keys(o: &Outcome) -> Vec<(Value, String)> {
    if let Outcome::Result(v) = o {
        if v["class"] == "ok" {
            if let Some(rt) = v["roundtrip"].as_str() {
                if rt != "equal" {
                    return vec![(
                        json!({"class":"export_does_not_load_back_equal","tool":"(library)","what":crate::modelfault::generic(&crate::panics::skeleton(rt))}),
                        format!("Model::from_json(model.as_json()) is not the converted model: {}", rt),
                    )];
                }
            }
        }
        if v["class"] == "ok" && v["stdout_bytes"].as_u64().unwrap_or(0) > 0 {
            let h = crate::panics::skeleton(v["stdout_head"].as_str().unwrap_or(""));
            return vec![(
                json!({"class":"library_writes_to_stdout","tool":"(library)","head":h}),
                format!(
                    "a library call that returned Ok wrote {} bytes to fd 1, starting {:?}",
                    v["stdout_bytes"],
                    v["stdout_head"].as_str().unwrap_or("")
                ),
            )];
        }
    }
    vec![]
}

pub fn run(tier: &str, seed: u64, replay: Option<String>) -> i32 {
    if let Some(p) = replay {
        return replay_one(&p);
    }
    let t0 = Instant::now();
    let thorough = tier == "thorough";
    let scratch = Scratch::new("c01");
    let mut rng = Rng::new(rng::derive(seed, "C01", 0));
    let root = crate::panics::repo_root();
    let projects: Vec<String> = corpus::project_dirs()
        .iter()
        .map(|p| p.strip_prefix(&root).unwrap_or(p).to_string_lossy().to_string())
        .collect();

    // ---- layer B: process level.  Fault-free configuration first (strict), then faults.
    let mut env_jobs: Vec<Value> = vec![];
    for p in &projects {
        for (tool, extra) in [("hulc2model", false), ("hulc2model", true), ("thor", false)] {
            env_jobs.push(json!({"t":"env","project":p,"tool":tool,"use_extra":extra,"fs":[],"rust_log":Value::Null,
                "path_form":"abs","hash_seed":0,"fake_time":Value::Null,"lang":Value::Null,"thor_r":true,"thor_v":0}));
        }
        // result files that are older than the last edit of the project (windows renamed since)
        env_jobs.push(json!({"t":"env","project":p,"tool":"hulc2model","use_extra":true,"fs":["stale_results"],"rust_log":Value::Null,
            "path_form":"abs","hash_seed":12345,"fake_time":Value::Null,"lang":Value::Null,"thor_r":false,"thor_v":0}));
        env_jobs.push(json!({"t":"env","project":p,"tool":"hulc2model","use_extra":true,"fs":["stale_gains_table"],"rust_log":Value::Null,
            "path_form":"abs","hash_seed":54321,"fake_time":Value::Null,"lang":Value::Null,"thor_r":false,"thor_v":0}));
        // free texts of the project (name, author, ...) with characters of every UTF-8 length,
        // including ones outside the basic multilingual plane
        env_jobs.push(json!({"t":"env","project":p,"tool":"hulc2model","use_extra":false,"fs":["unicode_texts"],"rust_log":Value::Null,
            "path_form":"abs","hash_seed":0,"fake_time":Value::Null,"lang":Value::Null,"thor_r":false,"thor_v":0}));
        // the documented use: stdout redirected to a file; and an interactive terminal
        for dev in ["file", "tty", "slow_pipe_stop", "dev_full", "closed_pipe"] {
            env_jobs.push(json!({"t":"env","project":p,"tool":"hulc2model","use_extra":dev == "file","fs":[],"rust_log":Value::Null,
                "path_form":"abs","hash_seed":0,"fake_time":Value::Null,"lang":Value::Null,"thor_r":false,"thor_v":0,"stdout_to":dev}));
        }
        // a project kept in a directory with an unusual name, reached through a symlink and a relative path
        for form in ["symlink_dotdot", "redundant"] {
            env_jobs.push(json!({"t":"env","project":p,"tool":"hulc2model","use_extra":false,"fs":[],"rust_log":Value::Null,
                "path_form":form,"hash_seed":0,"fake_time":Value::Null,"lang":Value::Null,"thor_r":false,"thor_v":0}));
        }
        for (form, name) in [("symlink", "Proyecto [rev2]"), ("rel", "casa (copia) 1")] {
            env_jobs.push(json!({"t":"env","project":p,"tool":"hulc2model","use_extra":false,"fs":["odd_dir_name"],"odd_name":name,"rust_log":Value::Null,
                "path_form":form,"hash_seed":0,"fake_time":Value::Null,"lang":Value::Null,"thor_r":false,"thor_v":0}));
        }
        // -o / -r given relative to the working directory, the project reached by another path
        for (of, pf) in [("rel", "abs"), ("rel_subdir", "rel"), ("rel", "symlink")] {
            env_jobs.push(json!({"t":"env","project":p,"tool":"thor","use_extra":false,"fs":[],"rust_log":Value::Null,
                "path_form":pf,"hash_seed":0,"fake_time":Value::Null,"lang":Value::Null,"thor_r":true,"thor_v":0,"out_form":of}));
        }
        // re-export in place: the -o / -r paths already hold an older, longer file
        env_jobs.push(json!({"t":"env","project":p,"tool":"thor","use_extra":false,"fs":["stale_output"],"rust_log":Value::Null,
            "path_form":"abs","hash_seed":0,"fake_time":Value::Null,"lang":Value::Null,"thor_r":true,"thor_v":0}));
    }
    // projects printed by the generator (basements, fins, several floors, own glazing library, ...)
    let gen_base = rng.next_u64() % 1_000_000;
    let mut gen_dirs: Vec<String> = (0..if thorough { 300 } else { 24 }).map(|k| crate::projgen::dir_rel(gen_base + k)).collect();
    // the self-contained family (converts without the catalogue; even seeds define their window
    // construction under a catalogue name with other values)
    gen_dirs.extend((0..6).map(|k| crate::projgen::dir_rel(crate::projgen::SELF_CONTAINED_FROM + k)));
    for (k, p) in gen_dirs.iter().enumerate() {
        for (tool, extra) in [("hulc2model", false), ("hulc2model", true), ("thor", false)] {
            env_jobs.push(json!({"t":"env","project":p,"tool":tool,"use_extra":extra,"fs":[],"rust_log":Value::Null,
                "path_form":"abs","hash_seed":k as u64 * 7,"fake_time":Value::Null,"lang":Value::Null,"thor_r":k % 2 == 0,"thor_v":0}));
        }
    }
    let n_strict = env_jobs.len();
    let n_sample = if thorough { 6000 } else { 300 };
    let mut sample_projects = projects.clone();
    sample_projects.extend(gen_dirs.iter().take(12).cloned());
    for _ in 0..n_sample {
        env_jobs.push(env_case(&mut rng, &sample_projects, true));
    }
    eprintln!("[C01] process level: {} fault-free + {} seeded cases", n_strict, n_sample);
    let env_out = run_env(env_jobs.clone(), &scratch.dir);
    eprintln!("[C01] process level done in {:.1}s", t0.elapsed().as_secs_f64());

    // ---- layer A: in process, wide: every library path reached must stay silent on fd 1
    let files = corpus::load(&[FileKind::Ctehexml, FileKind::Kyg, FileKind::Tbl]);
    let mut djobs: Vec<DJob> = vec![];
    for f in &files {
        let intact = vec![diskfault::Variant {
            edit: Edit::Intact,
            cell: format!("{}|intact", f.kind.as_str()),
        }];
        match f.kind {
            FileKind::Ctehexml => djobs.extend(diskrun::jobs_for(f, intact, 2, false, false)),
            _ => djobs.extend(diskrun::jobs_for(f, intact, 1, true, false)),
        }
    }
    let mut pool: Vec<DJob> = vec![];
    for f in &files {
        let vs = diskfault::enumerate_c19(f, f.kind != FileKind::Ctehexml);
        match f.kind {
            FileKind::Ctehexml => pool.extend(diskrun::jobs_for(f, vs, 2, false, false)),
            _ => pool.extend(diskrun::jobs_for(f, vs, 1, true, false)),
        }
    }
    let lib_space = pool.len();
    // side files are small: all their cells are always run; project-file cells fill the budget
    let (side, main): (Vec<DJob>, Vec<DJob>) = pool.into_iter().partition(|j| j.e2e);
    let side_picked = diskrun::stratified(side, if thorough { 40 } else { 2 }, &mut rng);
    let mut picked = diskrun::stratified(main, if thorough { 12 } else { 1 }, &mut rng);
    let lib_budget = if thorough { 30_000 } else { 900 };
    if picked.len() > lib_budget {
        rng.shuffle(&mut picked);
        picked.truncate(lib_budget);
    }
    djobs.extend(side_picked);
    djobs.extend(picked);
    // synthetic projects: one option value swapped for another value the parser knows about
    // (dictionary from the parser sources), alone and with every XML NO flag switched to SI
    let dict = crate::optvar::Dictionary::build();
    let mut opt_jobs: Vec<DJob> = vec![];
    let mut opt_space = 0usize;
    for f in files.iter().filter(|f| f.kind == FileKind::Ctehexml) {
        let mut seen = HashSet::new();
        for sl in crate::optvar::slots(&f.text) {
            // one slot per (tag, value): the parser cannot tell two occurrences apart
            if !seen.insert((sl.tag.clone(), sl.value.clone())) {
                continue;
            }
            let mut alts = dict.alternatives(&sl.value);
            // optional fields and defaults: an XML leaf left empty
            if f.text.split('\n').nth(sl.line).map(|l| l.trim_start().starts_with('<')).unwrap_or(false) && sl.value.len() > 1 {
                alts.push(String::new());
            }
            for alt in alts {
                for flags_on in [false, true] {
                    if alt.is_empty() && flags_on {
                        continue;
                    }
                    opt_space += 1;
                    opt_jobs.push(DJob {
                        file: f.rel.clone(),
                        edit: Edit::ValueSwap { line: sl.line, start: sl.start, end: sl.end, text: alt.clone(), flags_on },
                        cell: format!("optvar|{}|{}->{}|{}", sl.tag, sl.value, alt, flags_on),
                        level: 2,
                        e2e: false,
                        closure: false,
                        cost: f.text.len(),
                    });
                }
            }
        }
    }
    let opt_budget = if thorough { 40_000 } else { 9_000 };
    // stratified: one per (tag, value -> alternative, flags) cell first, cheapest files first
    let mut opt_picked = diskrun::stratified(opt_jobs, 1, &mut rng);
    if opt_picked.len() > opt_budget {
        rng.shuffle(&mut opt_picked);
        opt_picked.truncate(opt_budget);
    }
    eprintln!("[C01] option-variation layer: {} synthetic projects of {} in the space", opt_picked.len(), opt_space);
    let n_opt = opt_picked.len();
    djobs.extend(opt_picked);
    eprintln!("[C01] in-process layer: {} library runs under fd-1 capture (space {})", djobs.len(), lib_space);
    let lib = diskrun::run(djobs, super::c19::L2_TIMEOUT_MS, &scratch.dir);

    // ---- judge
    let mut groups: BTreeMap<String, (Value, usize, Value, String, usize)> = BTreeMap::new();
    let mut harness_errors = vec![];
    let mut evaluations = 0u64;
    let mut tuples: HashSet<String> = HashSet::new();
    let mut case_classes: BTreeMap<String, u64> = BTreeMap::new();
    let mut fired: BTreeMap<String, u64> = BTreeMap::new();
    let mut samples = vec![];
    let mut byte_identical = 0u64;
    for (i, (j, o)) in env_jobs.iter().zip(env_out.iter()).enumerate() {
        evaluations += 1;
        if let Outcome::Result(v) = o {
            if v["class"] == "harness_error" {
                harness_errors.push(v["detail"].as_str().unwrap_or("").to_string());
                continue;
            }
            let case = v["case"].as_str().unwrap_or(v["class"].as_str().unwrap_or("?")).to_string();
            *case_classes.entry(case.clone()).or_insert(0) += 1;
            if case == "convertible" || case == "no_project" {
                tuples.insert(format!(
                    "{}|{}|{}|{}|{}|{}",
                    j["project"], j["tool"], j["use_extra"], j["fs"], j["rust_log"], j["path_form"]
                ));
            }
            if v["byte_identical"] == true {
                byte_identical += 1;
            }
        }
        for f in j["fs"].as_array().cloned().unwrap_or_default() {
            *fired.entry(format!("fs.{}", f.as_str().unwrap_or(""))).or_insert(0) += 1;
        }
        if j["rust_log"].is_string() {
            *fired.entry("proc.env".into()).or_insert(0) += 1;
        }
        if j["hash_seed"].as_u64().unwrap_or(0) != 0 {
            *fired.entry("proc.hashseed".into()).or_insert(0) += 1;
        }
        if j["fake_time"].is_u64() {
            *fired.entry("proc.clock".into()).or_insert(0) += 1;
        }
        if j["path_form"] != "abs" {
            *fired.entry("fs.path_form".into()).or_insert(0) += 1;
        }
        if let Some(d) = j["stdout_to"].as_str() {
            if d != "pipe" {
                *fired.entry(format!("proc.stdout_device_{}", d)).or_insert(0) += 1;
            }
        }
        if let Outcome::Result(r) = o {
            if r["stop_cont_in_blocked_write"] == true {
                *fired.entry("proc.stop_cont_inside_blocked_stdout_write".into()).or_insert(0) += 1;
            }
        }
        for (key, detail) in env_keys(o) {
            let simp = j["fs"].as_array().map(|a| a.len()).unwrap_or(0) * 10
                + if j["rust_log"].is_null() { 0 } else { 1 }
                + if i < n_strict { 0 } else { 5 };
            let e = groups
                .entry(key.to_string())
                .or_insert_with(|| (key.clone(), 0, json!({"engine":"envsim","job":j}), detail.clone(), simp));
            e.1 += 1;
            if simp < e.4 {
                e.2 = json!({"engine":"envsim","job":j});
                e.3 = detail;
                e.4 = simp;
            }
        }
        if samples.len() < 5 && i % 67 == 40 {
            samples.push(json!({"job": j, "outcome": match o { Outcome::Result(v) => v.clone(), _ => json!("worker died") }}));
        }
    }
    let mut lib_hashes: HashSet<String> = HashSet::new();
    let mut lib_ok = 0u64;
    for (j, o) in lib.jobs.iter().zip(lib.outcomes.iter()) {
        if let Outcome::Result(v) = o {
            if v["class"] == "n/a" {
                continue;
            }
            evaluations += 1;
            if v["class"] == "ok" {
                lib_ok += 1;
                lib_hashes.insert(format!("{}|{}", j.file, v["hash"].as_str().unwrap_or("")));
            }
            if v["changed"] == true {
                *fired.entry(j.edit.kind_name().to_string()).or_insert(0) += 1;
            }
        } else {
            evaluations += 1;
        }
        for (key, detail) in lib_keys(o) {
            let simp = diskrun::simplicity(j).1 / 1000 + if j.edit == Edit::Intact { 0 } else { 1_000_000 };
            let e = groups
                .entry(key.to_string())
                .or_insert_with(|| (key.clone(), 0, json!({"engine":"diskfault+fdcapture","job":j.to_json()}), detail.clone(), simp));
            e.1 += 1;
            if simp < e.4 {
                e.2 = json!({"engine":"diskfault+fdcapture","job":j.to_json()});
                e.3 = detail;
                e.4 = simp;
            }
        }
    }
    if let Some(j) = lib.jobs.iter().find(|j| j.edit != Edit::Intact) {
        samples.push(json!({"job": j.to_json(), "layer": "in-process fd-1 capture"}));
    }
    let violations: Vec<Violation> = groups
        .into_values()
        .map(|(key, count, replay, detail, _)| Violation { key, count, replay, detail })
        .collect();
    let rep = Report {
        property: "C01".into(),
        tier: tier.into(),
        seed,
        level: "exploration".into(),
        violations,
        harness_errors: harness_errors.clone(),
    };
    let verdict = rep.conclude();
    let wall = t0.elapsed().as_secs_f64();
    let distinct = tuples.len() as u64 + lib_hashes.len() as u64;
    let mut extra = Map::new();
    extra.insert("process_runs".into(), json!(env_jobs.len()));
    extra.insert("process_runs_fault_free".into(), json!(n_strict));
    extra.insert("generated_projects_run_through_the_tools".into(), json!(gen_dirs.len()));
    extra.insert("process_case_classes".into(), json!(case_classes));
    extra.insert("stdout_byte_identical_to_library_as_json".into(), json!(byte_identical));
    extra.insert("in_process_runs".into(), json!(lib.jobs.len()));
    extra.insert("option_variation_projects".into(), json!(n_opt));
    extra.insert("option_variation_space".into(), json!(opt_space));
    extra.insert("in_process_runs_returning_ok".into(), json!(lib_ok));
    extra.insert("fault_kinds_fired".into(), json!(fired));
    extra.insert("known_findings_hit".into(), json!(verdict.known_hit));
    extra.insert("seeds_per_hour".into(), json!((evaluations as f64 / wall.max(0.001) * 3600.0) as u64));
    extra.insert("simulated_time".into(), json!("n/a - no timers in the system; the wall clock seam (VERIF_FAKE_TIME) is varied per case"));
    extra.insert("components".into(), report::components());
    Evidence {
        property: "C01".into(),
        tier: tier.into(),
        seed,
        level: "exploration".into(),
        evaluations,
        distinct_nontrivial: distinct,
        rule: "process level: the real hulc2model/thor binaries (built from the working tree) run on a simulated project directory; per case the simulator draws project, tool, --use-extra, directory faults (missing / stale KyG and tbl, extra files, two projects, empty/absent directory, file instead of directory, wrong-case extension, side files only, stale output files, odd directory names, free texts with 2-4-byte characters), RUST_LOG, LANG, cwd/path form (also '.', the file itself), relative or absolute -o/-r, hash seed, fake clock and the stdout device (pipe, file, pty, stalled consumer + SIGSTOP/SIGCONT, /dev/full, closed pipe - under the last two only 'no status 0 without the document' is judged); projects = the shipped ones and projects printed by the generator; reference = in-process collect_hulc_data on the same directory. In-process level: library conversions of intact and single-edit-damaged projects with fd 1 redirected to a memfd; any byte on fd 1 from a call that returns Ok is a violation. Non-trivial and distinct = distinct (project, tool, flag, fs-fault set, RUST_LOG, path form) tuples for which the library converted or the directory held no project, plus distinct damaged-file hashes the library converted".into(),
        samples,
        exhaustive: false,
        extra,
        assumptions: vec![
            "stdout must parse as exactly one JSON value (surrounding whitespace allowed) equal, as a JSON value, to the library's model; byte equality is recorded, not required".into(),
            "nothing is asserted about stderr, about Err projects other than 'no project', or about output-device failures".into(),
            "thor -o is compared with the plain conversion after removing the `extra` key that only the hulc2model path adds".into(),
            "Windows GUI front end not reachable".into(),
        ],
        wall_s: wall,
        violations: verdict.new_violations as u64,
    }
    .write();
    eprintln!(
        "[C01] {} evaluations, {} distinct nontrivial, {} new violations, {} known, {:.1}s",
        evaluations, distinct, verdict.new_violations, verdict.known_hit.len(), wall
    );
    let _ = BTreeSet::<u8>::new();
    if !harness_errors.is_empty() {
        for e in harness_errors.iter().take(3) {
            eprintln!("harness error: {}", e);
        }
        return 2;
    }
    if verdict.new_violations > 0 {
        1
    } else {
        0
    }
}
