//! `ctesim selftest`: determinism and sensitivity of the simulator itself are checked, not
//! assumed.  Writes /verif/evidence/selftest.json (copied into the evidence of C05/C14).

use super::c05::{env_of, run_proc_jobs};
use crate::orch::{self, Chunk, Outcome, RunOpts, Scratch};
use crate::rng::{self, Rng};
use serde_json::{json, Value};
use std::time::Instant;

fn proc_case(rng: &mut Rng) -> Value {
    let models = [
        "bemodel/tests/data/cubo.json",
        "bemodel/tests/data/caso_a.json",
        "bemodel/tests/data/cubo_gt_caldera_radiadores.json",
        "bemodel/tests/data/ejemploviv_unif.json",
    ];
    let n = rng.range(2, 6);
    let threads: Vec<Vec<Value>> = (0..n)
        .map(|_| {
            (0..rng.range(1, 2))
                .map(|_| {
                    if rng.chance(1, 6) {
                        json!({"op":"convert_text","file":"hulc_tests/tests/cubo/cubo.ctehexml"})
                    } else {
                        json!({"op":"indicators","base":rng.pick(&models),"edits":[]})
                    }
                })
                .collect()
        })
        .collect();
    let sched = match rng.below(3) {
        0 => json!({"strategy":"random"}),
        1 => json!({"strategy":"pct","d":rng.range(1,3),"est":rng.range(10,200)}),
        _ => json!({"strategy":"rr","q":rng.range(0,4)}),
    };
    json!({"t":"proc","threads":threads,"sched":sched,"sched_seed":rng.next_u64() % 1_000_000_007,"want_trace":true})
}

fn fingerprint(o: &Outcome) -> String {
    match o {
        Outcome::Result(v) => {
            let ops: Vec<String> = v["ops"]
                .as_array()
                .map(|a| {
                    a.iter()
                        .flat_map(|t| t.as_array().cloned().unwrap_or_default())
                        .map(|r| format!("{}:{}", r["class"].as_str().unwrap_or(""), r["hash"].as_str().unwrap_or("")))
                        .collect()
                })
                .unwrap_or_default();
            format!("{}|{}|{}", v["report"]["trace_hash"].as_str().unwrap_or(""), v["report"]["decisions"], ops.join(","))
        }
        Outcome::Abort { status, .. } => format!("abort:{}", status),
        Outcome::Timeout => "timeout".into(),
    }
}

pub fn main(args: &[String]) -> i32 {
    let t0 = Instant::now();
    let n_cases: usize = args
        .iter()
        .position(|a| a == "--cases")
        .and_then(|i| args.get(i + 1))
        .and_then(|s| s.parse().ok())
        .unwrap_or(600);
    let scratch = Scratch::new("selftest");
    let mut rng = Rng::new(rng::derive(super::verif_seed(), "selftest", 0));
    let mut failures: Vec<String> = vec![];

    // (a) scheduler determinism: same case twice, in different processes, at two worker counts
    let cases: Vec<(Value, Vec<(String, String)>)> = (0..n_cases)
        .map(|_| {
            let j = proc_case(&mut rng);
            (j, env_of(rng.next_u64() % 1000, None))
        })
        .collect();
    std::env::set_var("VERIF_WORKERS", "16");
    let a = run_proc_jobs(&cases, &scratch.dir);
    std::env::set_var("VERIF_WORKERS", "4");
    let b = run_proc_jobs(&cases, &scratch.dir);
    std::env::remove_var("VERIF_WORKERS");
    let mut mismatches = 0;
    let mut steps = 0u64;
    for (i, (x, y)) in a.iter().zip(b.iter()).enumerate() {
        if let Outcome::Result(v) = x {
            steps += v["report"]["decisions"].as_u64().unwrap_or(0);
        }
        if fingerprint(x) != fingerprint(y) {
            mismatches += 1;
            if failures.len() < 5 {
                failures.push(format!("case {} differs between runs: {} vs {}", i, fingerprint(x), fingerprint(y)));
            }
        }
    }
    // (a2) script replay reproduces a recorded trace decision by decision
    let mut script_ok = 0;
    let mut script_tried = 0;
    let mut script_cases = vec![];
    for ((job, env), o) in cases.iter().zip(a.iter()).take(60) {
        if let Outcome::Result(v) = o {
            if let Some(s) = v["script"].as_array() {
                let mut j = job.clone();
                j["sched"] = json!({"strategy":"script","decisions":s});
                script_cases.push((j, env.clone(), v["report"]["interleaving_hash"].clone()));
            }
        }
    }
    let sc: Vec<(Value, Vec<(String, String)>)> = script_cases.iter().map(|(j, e, _)| (j.clone(), e.clone())).collect();
    let so = run_proc_jobs(&sc, &scratch.dir);
    for ((j, _, want), o) in script_cases.iter().zip(so.iter()) {
        script_tried += 1;
        if let Outcome::Result(v) = o {
            if &v["report"]["interleaving_hash"] == want {
                script_ok += 1;
            } else if failures.len() < 8 {
                failures.push(format!("script replay produced another interleaving: {} decisions; job {}", v["report"]["decisions"], j));
            }
        }
    }
    // (b) entropy seam: HashSet order is a function of VERIF_HASH_SEED
    let probe = |seed: u64| -> String {
        let o = orch::run_chunks(
            vec![Chunk { env: env_of(seed, Some(1_000_000)), jobs: vec![(0, json!({"t":"probe_entropy"}))] }],
            &RunOpts { engine: "probe".into(), workers: 1, job_timeout_ms: 20_000, mem_mb: 0, use_shim: true },
            &scratch.dir,
        );
        match o.get(&0) {
            Some(Outcome::Result(v)) => v.to_string(),
            other => format!("{:?}", other),
        }
    };
    let p1 = probe(7);
    let p2 = probe(7);
    let p3 = probe(8);
    let shim_ok = p1 == p2 && p1 != p3 && p1.contains("\"time\":1000000");
    if !shim_ok {
        failures.push(format!("entropy/clock seam not effective: {} | {} | {}", p1, p2, p3));
    }
    // (b2) monotonic clock seam: stepping is seen by the opted-in thread only
    let mono = orch::run_chunks(
        vec![Chunk { env: env_of(0, None), jobs: vec![(0, json!({"t":"probe_mono","step_ns": 2_000_000_000i64}))] }],
        &RunOpts { engine: "probe".into(), workers: 1, job_timeout_ms: 20_000, mem_mb: 0, use_shim: true },
        &scratch.dir,
    );
    let mono_ok = match mono.get(&0) {
        Some(Outcome::Result(v)) => v["opted_in_delta_ns"].as_u64().unwrap_or(0) >= 2_000_000_000 && v["plain_delta_ns"].as_u64().unwrap_or(u64::MAX) < 1_000_000_000,
        _ => false,
    };
    if !mono_ok {
        failures.push(format!("monotonic clock seam not effective: {:?}", mono.get(&0)));
    }
    // (b3) a simulator that cannot start its workers must end with exit status 2 and no verdict
    let harness_ok = {
        let exe = std::env::current_exe().unwrap_or_default();
        let out = std::process::Command::new(exe)
            .args(["check", "C15", "quick"])
            .env("CTESIM_TEST_SPAWN_FAIL", "1")
            .env("VERIF_NO_EVIDENCE", "1")
            .output();
        match out {
            Ok(o) => {
                let txt = String::from_utf8_lossy(&o.stdout).to_string();
                o.status.code() == Some(2) && txt.contains("HARNESS-ERROR") && !txt.contains("VIOLATION")
            }
            Err(_) => false,
        }
    };
    if !harness_ok {
        failures.push("a simulator without workers did not end with exit 2 / HARNESS-ERROR".into());
    }
    // (c) canaries: a worker death and a hang are attributed to the job in flight; a lock-order
    // inversion between two simulated threads is reported as a deadlock
    let can = orch::run_chunks(
        vec![
            Chunk { env: vec![], jobs: vec![(0, json!({"t":"probe_entropy"})), (1, json!({"t":"canary_abort"})), (2, json!({"t":"probe_entropy"}))] },
            Chunk { env: vec![], jobs: vec![(3, json!({"t":"canary_hang"})), (4, json!({"t":"probe_entropy"}))] },
            Chunk { env: vec![], jobs: vec![(5, json!({"t":"canary_deadlock"}))] },
            Chunk { env: vec![], jobs: vec![(6, json!({"t":"canary_poison"}))] },
        ],
        &RunOpts { engine: "canary".into(), workers: 4, job_timeout_ms: 8_000, mem_mb: 0, use_shim: false },
        &scratch.dir,
    );
    let abort_ok = matches!(can.get(&1), Some(Outcome::Abort { .. })) && matches!(can.get(&0), Some(Outcome::Result(_))) && matches!(can.get(&2), Some(Outcome::Result(_)));
    let hang_ok = matches!(can.get(&3), Some(Outcome::Timeout)) && matches!(can.get(&4), Some(Outcome::Result(_)));
    let deadlock_ok = matches!(can.get(&5), Some(Outcome::Result(v)) if v["report"]["deadlock"] == true);
    let poison_seen = match can.get(&6) {
        Some(Outcome::Result(v)) => v["second_computation"].as_str().unwrap_or("").to_string(),
        _ => "no result".into(),
    };
    if !abort_ok {
        failures.push(format!("abort canary not attributed: {:?}", can.get(&1)));
    }
    if !hang_ok {
        failures.push(format!("hang canary not attributed: {:?}", can.get(&3)));
    }
    if !deadlock_ok {
        failures.push(format!("deadlock canary not reported: {:?}", can.get(&5)));
    }
    let doc = json!({
        "scheduler_cases_run_twice": n_cases,
        "worker_counts": [16, 4],
        "fingerprint_mismatches": mismatches,
        "scheduler_steps": steps,
        "script_replays_tried": script_tried,
        "script_replays_identical": script_ok,
        "entropy_clock_seam_effective": shim_ok,
        "monotonic_clock_seam_effective": mono_ok,
        "harness_failure_gives_exit_2_and_no_verdict": harness_ok,
        "canary_abort_attributed": abort_ok,
        "canary_hang_attributed": hang_ok,
        "canary_deadlock_reported": deadlock_ok,
        "canary_poison_second_computation": poison_seen,
        "wall_s": t0.elapsed().as_secs_f64(),
        "failures": failures,
    });
    let dir = crate::report::verif_dir().join("evidence");
    let _ = std::fs::create_dir_all(&dir);
    std::fs::write(dir.join("selftest.json"), serde_json::to_string_pretty(&doc).unwrap()).expect("write selftest.json");
    println!("{}", serde_json::to_string_pretty(&doc).unwrap());
    if mismatches > 0 || script_ok != script_tried || !shim_ok || !mono_ok || !harness_ok || !abort_ok || !hang_ok || !deadlock_ok {
        println!("SELFTEST FAILED");
        return 2;
    }
    println!("selftest ok");
    0
}
