//! C14 - indicator computation is total: never crashes or hangs, finite on sane models,
//! and a failure on one model never affects later computations in the same process.

use super::modelrun::{self, ModelRunCfg, StepOutcome};
use crate::corpus;
use crate::modelfault::{self, MEdit};
use crate::orch::Scratch;
use crate::report::{self, Evidence, Report, Violation};
use crate::rng::{self, Rng};
use serde_json::{json, Map, Value};
use std::collections::{BTreeMap, HashSet};
use std::time::Instant;

pub const PROBE: &str = "bemodel/tests/data/cubo.json";

pub fn bases() -> Vec<String> {
    let mut b: Vec<String> = corpus::model_files().into_iter().map(|(r, _)| r).collect();
    for (k, _) in modelfault::minimal_sessions() {
        b.push(format!("min:{}", k));
    }
    // models converted from projects printed by the generator (basements, several floors,
    // multipliers, fins and overhangs, unconditioned spaces, own glazing library)
    for gseed in GEN_BASE_SEEDS {
        b.push(format!("conv:{}", crate::projgen::file_rel(*gseed)));
    }
    b
}

pub const GEN_BASE_SEEDS: &[u64] = &[101, 102, 103, 104, 105, 106, 107, 108];

/// A coarse class of the element an edit is inside (boundary type and tilt class of a wall,
/// kind of a space or bridge), so that rare classes get their own stratification cell.
fn discriminator(m: &Value, gptr: &str, e: &MEdit) -> String {
    let ptr = match e {
        MEdit::KeyDeleted { ptr } | MEdit::ItemDeleted { ptr } | MEdit::ArrayEmptied { ptr } | MEdit::ArrayDuplicated { ptr }
        | MEdit::ArrayTruncated { ptr } | MEdit::IdRedirected { ptr, .. } | MEdit::NumberZeroed { ptr } | MEdit::NumberNegated { ptr }
        | MEdit::NumberNudged { ptr, .. } | MEdit::ScaleNumber { ptr, .. } => ptr.clone(),
        _ => return String::new(),
    };
    let parts: Vec<&str> = ptr.split('/').collect();
    if parts.len() < 3 {
        return String::new();
    }
    let elem = m.pointer(&format!("/{}/{}", parts[1], parts[2]));
    match (parts[1], elem) {
        ("walls", Some(w)) => {
            let tilt = w["geometry"]["tilt"].as_f64().unwrap_or(90.0);
            let tc = if tilt < 60.0 { "top" } else if tilt > 120.0 { "bottom" } else { "side" };
            format!("{}:{}:{}", w["bounds"].as_str().unwrap_or(""), tc, if w["next_to"].is_string() { "adj" } else { "" })
        }
        ("spaces", Some(s)) => format!("{}:{}", s["kind"].as_str().unwrap_or("CONDITIONED"), s["inside_tenv"].as_bool().unwrap_or(true)),
        ("thermal_bridges", Some(t)) => t["kind"].as_str().unwrap_or("").to_string(),
        _ => {
            let _ = gptr;
            String::new()
        }
    }
}

pub fn keys_of(o: &StepOutcome) -> Vec<(Value, String)> {
    let mut out = vec![];
    match o {
        StepOutcome::Result(r) => {
            if r["class"] == "load_panics" {
                let s = &r["i1"];
                out.push((
                    json!({"class":"load_panics","file":s["file"],"function":s["function"],"msg":s["msg"]}),
                    s["raw"].as_str().unwrap_or("").to_string(),
                ));
            }
            if r["i1"] == "fuel" {
                out.push((
                    json!({"class":"i1_fuel_exhausted","function":r["i1_site"]["function"]}),
                    "the recompute exceeded its loop budget (non-termination or data-dependent blow-up)".into(),
                ));
            }
            if r["i1"] == "panic" {
                let s = &r["i1_site"];
                out.push((
                    json!({"class":"i1_panic","file":s["file"],"function":s["function"],"msg":s["msg"],"code":s["code"]}),
                    format!("energy_indicators() panicked: {} (line {})", s["raw"].as_str().unwrap_or(""), s["line"]),
                ));
            }
            match r["probe"].as_str() {
                Some("panic") => {
                    let s = &r["probe_site"];
                    let after = if r["i1"] == "panic" {
                        format!("after a panic in {}", r["i1_site"]["function"].as_str().unwrap_or("?"))
                    } else {
                        "after a step that returned".to_string()
                    };
                    out.push((
                        json!({"class":"i2_probe_panics","probe_msg":s["msg"],"after":after}),
                        format!("healthy probe panicked: {}", s["raw"].as_str().unwrap_or("")),
                    ));
                }
                Some("differs") => {
                    out.push((
                        json!({"class":"i2_probe_differs","after": if r["i1"]=="panic" {"a failed step"} else {"a step that returned"}}),
                        "healthy probe result differs from its isolated reference".into(),
                    ));
                }
                _ => {}
            }
            if let Some(nf) = r["nonfinite"].as_array() {
                for f in nf {
                    out.push((
                        json!({"class":"i3_nonfinite","field":f}),
                        format!("sane model, indicator field {} is not finite", f),
                    ));
                }
            }
            if let Some(e) = r["roundtrip_err"].as_str() {
                if r["nonfinite"].as_array().map(|a| a.is_empty()).unwrap_or(true) {
                    out.push((
                        json!({"class":"i3_roundtrip","err":crate::panics::skeleton(e)}),
                        format!("indicators JSON does not load back: {}", e),
                    ));
                }
            }
            if !r["i3_panic"].is_null() {
                let s = &r["i3_panic"];
                out.push((
                    json!({"class":"i3_serialisation_panics","file":s["file"],"function":s["function"],"msg":s["msg"]}),
                    s["raw"].as_str().unwrap_or("").to_string(),
                ));
            }
        }
        StepOutcome::Abort(s) => {
            let what = if s.contains("stack overflow") {
                "stack overflow"
            } else if s.contains("memory allocation") {
                "allocation failure"
            } else {
                "process died"
            };
            out.push((json!({"class":"i1_abort","what":what}), s.clone()));
        }
        StepOutcome::Timeout => out.push((json!({"class":"i1_hang"}), "no result within the watchdog limit".into())),
        StepOutcome::ProbeRefFailed(s) => out.push((
            json!({"class":"probe_reference_fails","msg":s["msg"]}),
            "the healthy probe model fails in a fresh process".into(),
        )),
    }
    out
}

pub fn cfg() -> ModelRunCfg {
    ModelRunCfg {
        mode: "c14".into(),
        probe: PROBE.into(),
        with_indicators: false,
        steps_per_job: 40,
        job_timeout_ms: 20_000,
        env: vec![],
        use_shim: false,
    }
}

fn replay_one(path: &str) -> i32 {
    let doc = report::read_replay(std::path::Path::new(path));
    let want = doc["violation_key"].clone();
    let scratch = Scratch::new("c14r");
    if doc["threaded"] == true {
        // threaded history: re-run the job and re-judge through the quick path
        println!("threaded replay: re-running the recorded job");
        let env: Vec<(String, String)> = doc["env"].as_object().map(|o| o.iter().map(|(k, v)| (k.clone(), v.as_str().unwrap_or("").to_string())).collect()).unwrap_or_default();
        let o = super::c05::run_proc_jobs(&[(doc["job"].clone(), env)], &scratch.dir);
        let bad = match &o[0] {
            crate::orch::Outcome::Result(v) => {
                v["report"]["deadlock"] == true
                    || v["ops"].as_array().map(|a| a.iter().flat_map(|t| t.as_array().cloned().unwrap_or_default()).any(|r| r["class"] == "panic" || r["class"] == "fuel" || !keys_of(&StepOutcome::Result(r["step"].clone())).is_empty())).unwrap_or(false)
            }
            _ => true,
        };
        if bad {
            println!("VIOLATION property=C14 replay={}", path);
            println!("  reproduced key={}", want);
            return 1;
        }
        println!("replay did not reproduce");
        return 0;
    }
    let steps: Vec<Value> = doc["steps"].as_array().cloned().unwrap_or_else(|| vec![doc["step"].clone()]);
    let o = modelrun::run_steps(&steps, &cfg(), &scratch.dir);
    let keys: Vec<(Value, String)> = o.iter().flat_map(keys_of).collect();
    if let Some((k, d)) = keys.iter().find(|(k, _)| *k == want).or(keys.first()) {
        println!("VIOLATION property=C14 replay={}", path);
        println!("  reproduced key={} detail={}", k, d);
        1
    } else {
        println!("replay did not reproduce: {:?}", o);
        0
    }
}

pub fn run(tier: &str, seed: u64, replay: Option<String>) -> i32 {
    if let Some(p) = replay {
        return replay_one(&p);
    }
    crate::panics::install_hook();
    let t0 = Instant::now();
    let thorough = tier == "thorough";
    let scratch = Scratch::new("c14");
    let mut rng = Rng::new(rng::derive(seed, "C14", 0));
    let bases = bases();
    let mut steps: Vec<Value> = vec![];
    // ---- fault-free configuration: every base as it is
    for b in &bases {
        steps.push(json!({"base": b, "edits": [], "what": "intact"}));
    }
    // ---- every single structural edit
    let mut space = 0usize;
    let mut cells: BTreeMap<String, Vec<Value>> = BTreeMap::new();
    let mut per_base: BTreeMap<String, Vec<MEdit>> = BTreeMap::new();
    for b in &bases {
        let v = crate::engines::model::base_value(b);
        let edits = modelfault::enumerate_single(&v);
        space += edits.len();
        let is_min = b.starts_with("min:");
        // the quick tier also takes every edit of the probe model itself: a computation that
        // shares ids, climate and geometry with the healthy model that follows it
        let all_in_quick = is_min || b == PROBE;
        for e in &edits {
            let mut s = json!({"base": b, "edits": [e], "what": "single"});
            if !is_min {
                s["probe_base"] = json!(b);
            }
            if thorough || all_in_quick {
                steps.push(s);
            } else {
                cells
                    .entry(format!("{}|{}|{}", e.generic_ptr(), e.kind_name(), discriminator(&v, &e.generic_ptr(), e)))
                    .or_default()
                    .push(s);
            }
        }
        per_base.insert(b.clone(), edits);
    }
    let n_cells = cells.len();
    if !thorough {
        // up to 40 per (generic path, edit kind) cell: small collections (schedules, constructions,
        // the few walls of the small models) are covered completely even in the quick tier
        for (_, mut v) in cells {
            rng.shuffle(&mut v);
            steps.extend(v.into_iter().take(40));
        }
    }
    let n_single = steps.len() - bases.len();
    // ---- sane variants: the editor moves the whole building up or down (a ground floor becomes
    // a basement of several depths), changes the climate zone, scales the heights; the result is
    // a different sane model, so every number must still be finite
    let mut n_variants = 0usize;
    for b in &bases {
        for dz in [-0.3f64, -0.6, -1.0, -1.5, -2.0, -3.0, -4.5, -6.0, -12.0, 3.0, 30.0] {
            for wg in [false, true] {
                if dz > 0.0 && wg {
                    continue;
                }
                let mut es = vec![MEdit::MoveBuildingZ { dz, walls_to_ground: wg }];
                if n_variants % 3 == 1 {
                    es.push(MEdit::SetClimate { zone: rng.pick(modelfault::CLIMATES).to_string() });
                }
                let mut st = json!({"base": b, "edits": es, "what": "variant", "require_all": false});
                if !b.starts_with("min:") {
                    st["probe_base"] = json!(b);
                }
                steps.push(st);
                n_variants += 1;
            }
        }
    }
    // more sane variants: whole-collection editor operations and uniform rescalings that keep
    // the model closed and its data positive, but empty one of the sums the indicators divide by
    let unusual: Vec<Vec<MEdit>> = vec![
        vec![MEdit::SetAll { ptr: "/spaces".into(), key: "kind".into(), value: json!("UNINHABITED"), only_if: None }],
        vec![MEdit::SetAll { ptr: "/spaces".into(), key: "kind".into(), value: json!("UNCONDITIONED"), only_if: None }],
        vec![MEdit::SetAll { ptr: "/spaces".into(), key: "inside_tenv".into(), value: json!(false), only_if: None }],
        vec![MEdit::SetAll { ptr: "/spaces".into(), key: "multiplier".into(), value: json!(25.0), only_if: None }],
        vec![MEdit::SetAll { ptr: "/spaces".into(), key: "n_v".into(), value: json!(0.0), only_if: None }],
        vec![MEdit::SetAll { ptr: "/walls".into(), key: "bounds".into(), value: json!("ADIABATIC"), only_if: Some(("bounds".into(), json!("EXTERIOR"))) }, MEdit::ArrayEmptied { ptr: "/windows".into() }],
        vec![MEdit::SetAll { ptr: "/walls".into(), key: "bounds".into(), value: json!("ADIABATIC"), only_if: Some(("bounds".into(), json!("GROUND"))) }],
        vec![MEdit::ArrayEmptied { ptr: "/windows".into() }, MEdit::ArrayEmptied { ptr: "/shades".into() }],
        vec![MEdit::ArrayEmptied { ptr: "/thermal_bridges".into() }],
        vec![MEdit::ArrayEmptied { ptr: "/shades".into() }],
        vec![MEdit::SetAll { ptr: "/cons/wincons".into(), key: "f_f".into(), value: json!(1.0), only_if: None }],
        vec![MEdit::SetAll { ptr: "/cons/wincons".into(), key: "f_f".into(), value: json!(0.0), only_if: None }],
        vec![MEdit::SetAll { ptr: "/cons/wincons".into(), key: "g_glshwi".into(), value: json!(0.0), only_if: None }],
        vec![MEdit::SetAll { ptr: "/cons/glasses".into(), key: "g_gln".into(), value: json!(0.0), only_if: None }],
        vec![MEdit::SetAll { ptr: "/cons/wallcons".into(), key: "absorptance".into(), value: json!(0.0), only_if: None }],
        vec![MEdit::SetAll { ptr: "/thermal_bridges".into(), key: "l".into(), value: json!(0.0), only_if: None }],
        vec![MEdit::SetAll { ptr: "/thermal_bridges".into(), key: "psi".into(), value: json!(0.0), only_if: None }],
        vec![MEdit::ScaleAll { gptr: "/windows/*/geometry/width".into(), factor: 10.0 }],
        vec![MEdit::ScaleAll { gptr: "/windows/*/geometry/width".into(), factor: 0.01 }, MEdit::ScaleAll { gptr: "/windows/*/geometry/height".into(), factor: 0.01 }],
        vec![MEdit::ScaleAll { gptr: "/windows/*/geometry/setback".into(), factor: 20.0 }],
        vec![MEdit::ScaleAll { gptr: "/spaces/*/height".into(), factor: 0.05 }],
        vec![MEdit::ScaleAll { gptr: "/spaces/*/height".into(), factor: 40.0 }],
        vec![MEdit::ScaleAll { gptr: "/cons/wallcons/*/layers/*/e".into(), factor: 0.001 }],
        vec![MEdit::ScaleAll { gptr: "/cons/wallcons/*/layers/*/e".into(), factor: 50.0 }],
        vec![MEdit::ScaleAll { gptr: "/cons/materials/*/conductivity".into(), factor: 1000.0 }],
        vec![MEdit::ScaleAll { gptr: "/cons/materials/*/conductivity".into(), factor: 0.0001 }],
        vec![MEdit::ScaleAll { gptr: "/walls/*/geometry/polygon/*/*".into(), factor: 0.02 }],
        vec![MEdit::ScaleAll { gptr: "/walls/*/geometry/polygon/*/*".into(), factor: 30.0 }],
        // windows moved outside their walls (a wrong sill height, a wall edited afterwards)
        vec![MEdit::ScaleAll { gptr: "/windows/*/geometry/position/*".into(), factor: 25.0 }],
        vec![MEdit::ScaleAll { gptr: "/windows/*/geometry/position/1".into(), factor: 4.0 }],
        vec![MEdit::ScaleAll { gptr: "/windows/*/geometry/position/0".into(), factor: -1.0 }],
        vec![MEdit::ShareIdAcross { a: "wallcons".into(), b: "wincons".into() }],
        vec![MEdit::ShareIdAcross { a: "spaces".into(), b: "walls".into() }],
        vec![MEdit::SetMeta { key: "global_ventilation_l_s".into(), value: json!(0.0) }],
        vec![MEdit::SetMeta { key: "n50_test_ach".into(), value: json!(0.01) }],
        vec![MEdit::SetMeta { key: "num_dwellings".into(), value: json!(0) }],
        vec![MEdit::SetMeta { key: "d_perim_insulation".into(), value: json!(0.0) }, MEdit::SetMeta { key: "rn_perim_insulation".into(), value: json!(0.0) }],
        vec![MEdit::SetMeta { key: "d_perim_insulation".into(), value: json!(5.0) }, MEdit::SetMeta { key: "rn_perim_insulation".into(), value: json!(0.0) }],
        vec![MEdit::SetMeta { key: "is_new_building".into(), value: json!(false) }, MEdit::SetMeta { key: "is_dwelling".into(), value: json!(false) }],
    ];
    for b in &bases {
        for (k, es) in unusual.iter().enumerate() {
            let mut es = es.clone();
            if (k + n_variants) % 4 == 1 {
                es.push(MEdit::SetClimate { zone: rng.pick(modelfault::CLIMATES).to_string() });
            }
            let mut st = json!({"base": b, "edits": es, "what": "variant", "require_all": false});
            if !b.starts_with("min:") {
                st["probe_base"] = json!(b);
            }
            steps.push(st);
            n_variants += 1;
        }
        // every climate zone on the intact model
        for z in modelfault::CLIMATES {
            let mut st = json!({"base": b, "edits": [MEdit::SetClimate { zone: z.to_string() }], "what": "variant", "require_all": false});
            if !b.starts_with("min:") {
                st["probe_base"] = json!(b);
            }
            steps.push(st);
            n_variants += 1;
        }
    }
    // pairs (a link moved to a sibling element, a schedule array edited): the sums over spaces,
    // loads and schedules meet combinations no shipped model has (two occupied spaces with
    // different profiles, one of them with a shortened calendar, ...)
    let mut n_pairs = 0usize;
    for b in &bases {
        let v = crate::engines::model::base_value(b);
        let mut moves: Vec<MEdit> = vec![];
        for (i, _) in crate::closure::collection(&v, &["spaces"]).iter().enumerate().take(4) {
            for l in ["loads", "thermostat"] {
                moves.push(MEdit::IdRedirected { ptr: format!("/spaces/{}/{}", i, l), to: "sibling".into() });
            }
        }
        for (i, _) in crate::closure::collection(&v, &["loads"]).iter().enumerate().take(4) {
            for l in ["people_schedule", "equipment_schedule", "lighting_schedule"] {
                moves.push(MEdit::IdRedirected { ptr: format!("/loads/{}/{}", i, l), to: "sibling".into() });
            }
        }
        // schedules the loads and thermostats actually reach (yearly -> weekly -> daily)
        let mut used: std::collections::BTreeSet<String> = Default::default();
        for l in crate::closure::collection(&v, &["loads"]).iter().chain(crate::closure::collection(&v, &["thermostats"]).iter()) {
            for k in ["people_schedule", "equipment_schedule", "lighting_schedule", "temp_max", "temp_min"] {
                if let Some(id) = l.get(k).and_then(|x| x.as_str()) {
                    used.insert(id.to_string());
                }
            }
        }
        for coll in ["year", "week"] {
            for sc in crate::closure::collection(&v, &["schedules", coll]) {
                if sc.get("id").and_then(|x| x.as_str()).map(|i| used.contains(i)).unwrap_or(false) {
                    for p in sc.get("values").and_then(|x| x.as_array()).cloned().unwrap_or_default() {
                        if let Some(id) = p.get(0).and_then(|x| x.as_str()) {
                            used.insert(id.to_string());
                        }
                    }
                }
            }
        }
        let mut sched_edits: Vec<MEdit> = vec![];
        let mut n_year_edits = 0usize;
        for coll in ["year", "week", "day"] {
            for (i, sc) in crate::closure::collection(&v, &["schedules", coll]).iter().enumerate() {
                if !sc.get("id").and_then(|x| x.as_str()).map(|i| used.contains(i)).unwrap_or(false) {
                    continue;
                }
                let ptr = format!("/schedules/{}/{}/values", coll, i);
                sched_edits.push(MEdit::ArrayEmptied { ptr: ptr.clone() });
                sched_edits.push(MEdit::ArrayTruncated { ptr: ptr.clone() });
                if coll == "year" {
                    n_year_edits = sched_edits.len();
                }
                sched_edits.push(MEdit::ArrayDuplicated { ptr });
            }
        }
        if moves.is_empty() || sched_edits.is_empty() {
            continue;
        }
        // the moves alone (closed models), then move x schedule edit
        for mv in &moves {
            let mut st = json!({"base": b, "edits": [mv], "what": "pair", "require_all": false});
            if !b.starts_with("min:") {
                st["probe_base"] = json!(b);
            }
            steps.push(st);
            n_pairs += 1;
        }
        // every move x every edit of a used yearly calendar; a seeded sample of the rest
        let all: Vec<(usize, usize)> = (0..moves.len()).flat_map(|a| (0..sched_edits.len()).map(move |c| (a, c))).collect();
        let (first, rest): (Vec<usize>, Vec<usize>) = (0..all.len()).partition(|k| all[*k].1 < n_year_edits);
        let mut rest = rest;
        rng.shuffle(&mut rest);
        let take_rest = if thorough { rest.len() } else { rest.len().min(100) };
        for k in first.into_iter().chain(rest.into_iter().take(take_rest)) {
            let (a, c) = all[k];
            let mut st = json!({"base": b, "edits": [moves[a], sched_edits[c]], "what": "pair", "require_all": true});
            if !b.starts_with("min:") {
                st["probe_base"] = json!(b);
            }
            steps.push(st);
            n_pairs += 1;
        }
    }
    // ---- 2..3 simultaneous edits
    let n_multi = if thorough { 8000 } else { 400 };
    for _ in 0..n_multi {
        let b = rng.pick(&bases).clone();
        let edits = &per_base[&b];
        if edits.is_empty() {
            continue;
        }
        let k = rng.range(2, 3);
        let mut es: Vec<MEdit> = (0..k).map(|_| rng.pick(edits).clone()).collect();
        // apply deeper / later pointers first so earlier deletions do not move them
        es.sort_by(|a, b| format!("{:?}", b).cmp(&format!("{:?}", a)));
        let mut st = json!({"base": b, "edits": es, "what": "multi", "require_all": false});
        if !b.starts_with("min:") {
            st["probe_base"] = json!(b);
        }
        steps.push(st);
    }
    // ---- editor sessions from the empty model: every prefix is a recompute
    let n_sessions = if thorough { 3000 } else { 150 };
    let mut n_session_steps = 0usize;
    let mut sessions: Vec<Vec<MEdit>> = modelfault::minimal_sessions().into_iter().map(|(_, ops)| ops).filter(|o| !o.is_empty()).collect();
    for _ in 0..n_sessions {
        sessions.push(modelfault::editor_session(&mut rng));
    }
    for ops in &sessions {
        for k in 1..=ops.len() {
            // consecutive recomputes of one session stay consecutive: probe after the last only
            steps.push(json!({"base": "empty", "edits": ops[..k], "what": "session", "require_all": false, "probe": k == ops.len()}));
            n_session_steps += 1;
        }
    }
    eprintln!(
        "[C14] {} bases; single-edit space {} ({} cells); running {} single, {} sane-variant, {} multi, {} session steps; healthy probe (the intact base model, else {}) after every step",
        bases.len(), space, n_cells, n_single, n_variants, n_multi, n_session_steps, PROBE
    );
    let out = modelrun::run_steps(&steps, &cfg(), &scratch.dir);

    // ---- the same histories with several caller threads: a failure on one thread meets
    // healthy computations on the others (baton scheduler, real threads)
    let healthy: Vec<Value> = bases
        .iter()
        .filter(|b| !b.starts_with("min:"))
        .map(|b| json!({"op":"indicators","base":b,"edits":[]}))
        .collect();
    let refs = super::c05::compute_refs(&healthy, &scratch.dir);
    let healthy: Vec<Value> = healthy
        .into_iter()
        .filter(|o| refs.get(&super::c05::op_key(o)).map(|(c, _)| c == "ok").unwrap_or(false))
        .collect();
    let n_thr = if thorough { 4000 } else { 600 };
    let mut thr_cases: Vec<(Value, Vec<(String, String)>)> = vec![];
    let faulted_pool: Vec<&Value> = steps.iter().filter(|s| s["what"] != "intact").collect();
    // the same pool grouped by what the step did when it ran alone (outcome class, kinds of
    // warnings returned, non-finite fields): half of the picks below choose a group first, so a
    // behaviour only a handful of steps show still meets concurrent healthy computations
    let mut by_behaviour: BTreeMap<String, Vec<&Value>> = BTreeMap::new();
    for (s, o) in steps.iter().zip(out.iter()) {
        if s["what"] == "intact" {
            continue;
        }
        let key = match o {
            StepOutcome::Result(r) => format!("{}|{}|{}|{}", r["class"], r["i1"], r["warn_sig"].as_str().unwrap_or("-"), r["nonfinite"].as_array().map(|a| a.len()).unwrap_or(0)),
            _ => "died".to_string(),
        };
        by_behaviour.entry(key).or_default().push(s);
    }
    let behaviour_groups: Vec<&Vec<&Value>> = by_behaviour.values().collect();
    for _ in 0..n_thr {
        if healthy.is_empty() || faulted_pool.is_empty() {
            break;
        }
        let nthreads = rng.range(2, 4);
        let n_faulted = if nthreads > 2 && rng.chance(1, 3) { 2 } else { 1 };
        let mut threads: Vec<Vec<Value>> = vec![];
        for t in 0..nthreads {
            if t < n_faulted {
                let n = rng.range(1, 4);
                threads.push(
                    (0..n)
                        .map(|_| {
                            let s = if rng.chance(1, 2) || behaviour_groups.is_empty() { *rng.pick(&faulted_pool) } else { let g = *rng.pick(&behaviour_groups); *rng.pick(g) };
                            json!({"op":"recompute","base":s["base"],"edits":s["edits"],"require_all":false})
                        })
                        .collect(),
                );
            } else {
                let n = rng.range(1, 3);
                threads.push((0..n).map(|_| rng.pick(&healthy).clone()).collect());
            }
        }
        let sched = match rng.below(3) {
            0 => json!({"strategy":"random"}),
            1 => json!({"strategy":"pct","d":rng.range(1,3),"est":rng.range(10,200)}),
            _ => json!({"strategy":"rr","q":rng.range(0,4)}),
        };
        thr_cases.push((
            json!({"t":"proc","threads":threads,"sched":sched,"sched_seed":rng.next_u64() % 1_000_000_007,"fuel": 500_000_000i64}),
            super::c05::env_of(rng.next_u64() % 1000, None),
        ));
    }
    // ordered pairs in a FRESH process: the faulted model is the first thing the process ever
    // computes, then the intact model; the intact result must equal its isolated reference
    // (catches state where the first computation wins, which a reference computed earlier in
    // the same process would mask)
    let n_first = if thorough { 12_000 } else { 1_500 };
    let file_pool: Vec<&Value> = faulted_pool.iter().copied().filter(|s| s["base"].as_str().map(|b| !b.starts_with("min:") && b != "empty").unwrap_or(false)).collect();
    // every non-schedule single edit of the probe model itself, then a seeded sample of the rest
    let own: Vec<&Value> = file_pool
        .iter()
        .copied()
        .filter(|s| s["base"] == PROBE && s["what"] == "single" && !serde_json::to_string(&s["edits"]).unwrap_or_default().contains("/schedules/"))
        .collect();
    for k in 0..(n_first + own.len()) {
        if file_pool.is_empty() {
            break;
        }
        let st = if k < own.len() { own[k] } else { *rng.pick(&file_pool) };
        let healthy_op = json!({"op":"indicators","base":st["base"],"edits":[]});
        if !refs.contains_key(&super::c05::op_key(&healthy_op)) {
            continue;
        }
        thr_cases.push((
            json!({"t":"proc","threads":[[{"op":"recompute","base":st["base"],"edits":st["edits"],"require_all":false}, healthy_op]],
                "sched":{"strategy":"rr","q":1000000},"sched_seed":0,"fuel": 500_000_000i64}),
            super::c05::env_of(0, None),
        ));
    }
    let thr_out = super::c05::run_proc_jobs_t(&thr_cases, &scratch.dir, 45_000);

    let mut groups: BTreeMap<String, (Value, usize, Value, String, usize)> = BTreeMap::new();
    let mut thr_steps = 0u64;
    let mut thr_interleavings: HashSet<String> = HashSet::new();
    let mut thr_switches_cs = 0u64;
    for ((job, env), o) in thr_cases.iter().zip(thr_out.iter()) {
        let envmap: BTreeMap<String, String> = env.iter().cloned().collect();
        let replay = json!({"engine":"procsim","threaded": true, "job": job, "env": envmap});
        let size = 1_000_000 + job["threads"].as_array().map(|a| a.iter().map(|t| t.as_array().map(|x| x.len()).unwrap_or(0)).sum::<usize>()).unwrap_or(0);
        let mut found: Vec<(Value, String)> = vec![];
        match o {
            crate::orch::Outcome::Result(v) => {
                let rep = &v["report"];
                thr_steps += rep["decisions"].as_u64().unwrap_or(0);
                thr_switches_cs += rep["switches_in_critical_section"].as_u64().unwrap_or(0);
                thr_interleavings.insert(rep["interleaving_hash"].as_str().unwrap_or("").to_string());
                if rep["deadlock"] == true {
                    found.push((json!({"class":"deadlock","locks":rep["lock_names"]}), "no enabled thread while some unfinished".into()));
                }
                let any_failed = v["ops"].as_array().map(|a| a.iter().flat_map(|t| t.as_array().cloned().unwrap_or_default()).any(|r| r["step"]["i1"] == "panic" || r["step"]["i1"] == "fuel")).unwrap_or(false);
                for (ti, ops) in job["threads"].as_array().cloned().unwrap_or_default().iter().enumerate() {
                    for (oi, op) in ops.as_array().cloned().unwrap_or_default().iter().enumerate() {
                        let r = &v["ops"][ti][oi];
                        if r.is_null() {
                            continue;
                        }
                        if op["op"] == "recompute" {
                            if r["class"] == "ok" {
                                found.extend(keys_of(&StepOutcome::Result(r["step"].clone())));
                            }
                        } else if let Some((rc, rh)) = refs.get(&super::c05::op_key(op)) {
                            let cls = r["class"].as_str().unwrap_or("?");
                            if cls == "panic" || cls == "fuel" {
                                found.push((
                                    json!({"class":"i2_probe_panics","probe_msg":r["site"]["msg"],"after": if any_failed {"a concurrent failed recompute"} else {"concurrent recomputes that returned"}}),
                                    format!("healthy computation on another thread panicked: {}", r["raw"].as_str().unwrap_or("")),
                                ));
                            } else if cls != rc.as_str() || r["hash"].as_str().unwrap_or("") != rh {
                                found.push((
                                    json!({"class":"i2_probe_differs","after": if any_failed {"a concurrent failed recompute"} else {"concurrent recomputes that returned"}}),
                                    "healthy computation on another thread differs from its isolated reference".into(),
                                ));
                            }
                        }
                    }
                }
            }
            crate::orch::Outcome::Abort { status, stderr_tail } => found.push((
                json!({"class":"i1_abort","what": if stderr_tail.contains("stack overflow") {"stack overflow"} else if stderr_tail.contains("memory allocation") {"allocation failure"} else {"process died"}}),
                format!("{} | {}", status, stderr_tail.lines().last().unwrap_or("")),
            )),
            crate::orch::Outcome::Timeout => found.push((json!({"class":"i1_hang"}), "no result within the watchdog limit (threads)".into())),
        }
        for (key, detail) in found {
            let e = groups
                .entry(key.to_string())
                .or_insert_with(|| (key.clone(), 0, replay.clone(), detail.clone(), size));
            e.1 += 1;
            if size < e.4 {
                e.2 = replay.clone();
                e.3 = detail;
                e.4 = size;
            }
        }
    }
    let mut evaluations = thr_cases.len() as u64;
    let mut classes: BTreeMap<String, u64> = BTreeMap::new();
    let mut fired: BTreeMap<String, u64> = BTreeMap::new();
    let mut descriptors: HashSet<String> = HashSet::new();
    let mut sane_n = 0u64;
    let mut probes_equal = 0u64;
    let mut i1_failures = 0u64;
    let mut not_sane: BTreeMap<String, u64> = BTreeMap::new();
    let mut samples = vec![];
    for (i, (s, o)) in steps.iter().zip(out.iter()).enumerate() {
        match o {
            StepOutcome::Result(r) => {
                let cls = r["class"].as_str().unwrap_or("?").to_string();
                *classes.entry(cls.clone()).or_insert(0) += 1;
                if cls == "n/a" {
                    continue;
                }
                evaluations += 1;
                if cls == "loaded" {
                    let kinds = r["kinds"].as_array().cloned().unwrap_or_default();
                    for k in &kinds {
                        *fired.entry(k.as_str().unwrap_or("").to_string()).or_insert(0) += 1;
                    }
                    if !kinds.is_empty() {
                        let gp: Vec<String> = serde_json::from_value::<Vec<MEdit>>(s["edits"].clone())
                            .unwrap_or_default()
                            .iter()
                            .map(|e| format!("{}@{}", e.kind_name(), e.generic_ptr()))
                            .collect();
                        descriptors.insert(format!("{}|{:?}|{}", s["base"], gp, r["hash"]));
                    }
                    if r["sane"] == true {
                        sane_n += 1;
                    } else if let Some(w) = r["not_sane_because"].as_str() {
                        *not_sane.entry(crate::panics::skeleton(w)).or_insert(0) += 1;
                    }
                    if r["probe"] == "equal" {
                        probes_equal += 1;
                    }
                    if r["i1"] == "panic" {
                        i1_failures += 1;
                    }
                }
            }
            _ => evaluations += 1,
        }
        for (key, detail) in keys_of(o) {
            let ne = s["edits"].as_array().map(|a| a.len()).unwrap_or(0);
            let simp = ne * 100_000 + s["base"].as_str().map(|b| if b.starts_with("min:") || b == "empty" { 0 } else { 50_000 }).unwrap_or(0) + i.min(49_999);
            let replay = json!({"engine":"procsim+modelfault","step": s, "probe": PROBE});
            let e = groups
                .entry(key.to_string())
                .or_insert_with(|| (key.clone(), 0, replay.clone(), detail.clone(), simp));
            e.1 += 1;
            if simp < e.4 {
                e.2 = replay;
                e.3 = detail;
                e.4 = simp;
            }
        }
        if samples.len() < 6 && i % 2503 == 11 {
            samples.push(json!({"step": s, "outcome": match o { StepOutcome::Result(r) => r.clone(), _ => json!("worker died / hang") }}));
        }
    }
    if samples.is_empty() {
        samples.push(json!({"step": steps.last()}));
    }
    let violations: Vec<Violation> = groups
        .into_values()
        .map(|(key, count, replay, detail, _)| Violation { key, count, replay, detail })
        .collect();
    let rep = Report {
        property: "C14".into(),
        tier: tier.into(),
        seed,
        level: "exploration".into(),
        violations,
        harness_errors: vec![],
    };
    let verdict = rep.conclude();
    let wall = t0.elapsed().as_secs_f64();
    let mut extra = Map::new();
    extra.insert("bases".into(), json!(bases));
    extra.insert("single_edit_space".into(), json!(space));
    extra.insert("single_edit_cells".into(), json!(n_cells));
    extra.insert("single_edits_exhaustive".into(), json!(thorough));
    extra.insert("sane_variant_steps".into(), json!(n_variants));
    extra.insert("sibling_move_x_schedule_edit_steps".into(), json!(n_pairs));
    extra.insert("step_classes".into(), json!(classes));
    extra.insert("fault_kinds_fired".into(), json!(fired));
    extra.insert("recomputes_inside_sanity_predicate".into(), json!(sane_n));
    extra.insert("outside_sanity_predicate_because".into(), json!(not_sane));
    extra.insert("healthy_probes_equal_to_reference".into(), json!(probes_equal));
    extra.insert("recomputes_that_failed".into(), json!(i1_failures));
    extra.insert("known_findings_hit".into(), json!(verdict.known_hit));
    extra.insert("determinism_selftest".into(), report::selftest_summary());
    extra.insert("threaded_cases".into(), json!(thr_cases.len()));
    extra.insert("behaviour_groups_of_faulted_steps".into(), json!(by_behaviour.len()));
    extra.insert("scheduler_steps".into(), json!(thr_steps));
    extra.insert("distinct_interleavings".into(), json!(thr_interleavings.len()));
    extra.insert("context_switches_inside_critical_section".into(), json!(thr_switches_cs));
    extra.insert("seeds_per_hour".into(), json!((evaluations as f64 / wall.max(0.001) * 3600.0) as u64));
    extra.insert("simulated_time".into(), json!("n/a - no timers in the system; (edit, recompute, probe) steps reported instead"));
    extra.insert("components".into(), report::components());
    Evidence {
        property: "C14".into(),
        tier: tier.into(),
        seed,
        level: "exploration".into(),
        evaluations,
        distinct_nontrivial: descriptors.len() as u64,
        rule: "history of (edit, recompute, healthy probe) steps in simulated long-lived processes: every single structural edit (delete key / array item, empty / duplicate / truncate array, redirect id to nil / fresh / other-collection id, zero / negate number) of every node of the shipped models and of the minimal editor-built models (thorough: all; quick: up to 40 per (generic path, edit kind) cell, all for the minimal models), sane variants (the whole building moved down by 0.3..12 m or up, with or without its windowless exterior walls becoming ground-contact, optionally another climate zone), seeded sets of 2..3 edits, seeded editor sessions from the empty model (every prefix recomputed). I1: the recompute returns; I2: the probe after every step equals its isolated reference; I3: inside the strict sanity predicate nothing non-finite and the indicators JSON loads back. Non-trivial and distinct = distinct (base, generic edit paths, content hash) whose mutated JSON loaded and differed from the base".into(),
        samples,
        exhaustive: false,
        extra,
        assumptions: vec![
            "the harness is built with unwinding so a panic can be observed and the process probed afterwards; in a release build (panic=abort) the same panic ends the process".into(),
            "I3 is only evaluated inside a deliberately strict sanity predicate (closure incl. schedules, positive sizes, non-negative physical data, schedules covering 365 / 7 / 24)".into(),
            "hang detection is a wall-clock watchdog at 20 s per job of at most 40 steps (a healthy step takes milliseconds; the slowest healthy job observed takes under 1 s)".into(),
        ],
        wall_s: wall,
        violations: verdict.new_violations as u64,
    }
    .write();
    eprintln!(
        "[C14] {} evaluations, {} distinct nontrivial, {} recomputes failed, {} new violations, {} known, {:.1}s",
        evaluations, descriptors.len(), i1_failures, verdict.new_violations, verdict.known_hit.len(), wall
    );
    if verdict.new_violations > 0 {
        1
    } else {
        0
    }
}
