//! C19 - damaged project files are rejected with an error, never with a crash or hang.

use super::diskrun::{self, DJob};
use crate::corpus::{self, FileKind};
use crate::diskfault::{self, Edit};
use crate::orch::{Outcome, Scratch};
use crate::report::{self, Evidence, Report, Violation};
use crate::rng::{self, Rng};
use serde_json::{json, Map, Value};
use std::collections::{BTreeMap, BTreeSet, HashSet};
use std::time::Instant;

pub const L1_TIMEOUT_MS: u64 = 15_000;
pub const L2_TIMEOUT_MS: u64 = 60_000;

pub fn violation_key_of(o: &Outcome, job: &DJob) -> Option<(Value, String)> {
    match o {
        Outcome::Result(v) => match v["class"].as_str().unwrap_or("") {
            "panic" => {
                let s = &v["site"];
                Some((
                    json!({"class":"panic","file":s["file"],"function":s["function"],"msg":s["msg"],"code":s["code"]}),
                    format!("{} (line {})", v["msg"].as_str().unwrap_or(""), v["line"]),
                ))
            }
            _ => None,
        },
        Outcome::Abort { status, stderr_tail } => {
            let what = if stderr_tail.contains("stack overflow") {
                "stack overflow".to_string()
            } else if stderr_tail.contains("memory allocation") {
                "allocation failure".to_string()
            } else {
                status.clone()
            };
            Some((
                json!({"class":"abort","what":what,"file_kind":crate::engines::disk::kind_of(&job.file).as_str()}),
                format!("worker died: {} | {}", status, stderr_tail.lines().last().unwrap_or("")),
            ))
        }
        Outcome::Timeout => Some((
            // no panic site for a hang: group by the damaged attribute and the edit kind
            json!({"class":"hang","attribute":job.cell.split('|').nth(2).unwrap_or(""),"edit":job.cell.split('|').nth(3).unwrap_or("")}),
            "no result within the watchdog limit".to_string(),
        )),
    }
}

fn replay_one(path: &str) -> i32 {
    let doc = report::read_replay(std::path::Path::new(path));
    let job = doc["job"].clone();
    let want = doc["violation_key"].clone();
    let scratch = Scratch::new("c19r");
    let dj = DJob {
        file: job["file"].as_str().unwrap_or("").to_string(),
        edit: serde_json::from_value(job["edit"].clone()).unwrap_or(Edit::Intact),
        cell: doc["cell"].as_str().unwrap_or("").to_string(),
        level: job["level"].as_u64().unwrap_or(1),
        e2e: job["e2e"].as_bool().unwrap_or(false),
        closure: job["closure"].as_bool().unwrap_or(false),
        cost: 1,
    };
    let res = diskrun::run(vec![dj.clone()], L2_TIMEOUT_MS, &scratch.dir);
    match violation_key_of(&res.outcomes[0], &dj) {
        Some((k, detail)) if k == want => {
            println!("VIOLATION property=C19 replay={}", path);
            println!("  reproduced key={} detail={}", k, detail);
            1
        }
        Some((k, _)) => {
            println!("replay produced a different failure: {}", k);
            1
        }
        None => {
            println!("replay did not reproduce: outcome {:?}", res.outcomes[0]);
            0
        }
    }
}

pub fn run(tier: &str, seed: u64, replay: Option<String>) -> i32 {
    if let Some(p) = replay {
        return replay_one(&p);
    }
    let t0 = Instant::now();
    let thorough = tier == "thorough";
    let full = std::env::var("VERIF_C19_FULL").is_ok();
    let scratch = Scratch::new("c19");
    let mut files = corpus::load(&[FileKind::Ctehexml, FileKind::Cte, FileKind::Kyg, FileKind::Tbl]);
    let mut rng = Rng::new(rng::derive(seed, "C19", 0));
    // projects printed by the generator are damaged like the shipped ones (blocks with fins,
    // overhangs, basements, several window constructions)
    let gen_base = rng.next_u64() % 1_000_000;
    files.extend(corpus::generated((0..if thorough { 12 } else { 4 }).map(|k| gen_base + k)));

    // ---- fault-free configuration (strict): every intact file, at every level
    let mut jobs: Vec<DJob> = vec![];
    for f in &files {
        let intact = vec![diskfault::Variant {
            edit: Edit::Intact,
            cell: format!("{}|intact", f.kind.as_str()),
        }];
        jobs.extend(diskrun::jobs_for(f, intact.clone(), 1, false, false));
        match f.kind {
            FileKind::Ctehexml => jobs.extend(diskrun::jobs_for(f, intact, 2, false, false)),
            FileKind::Kyg | FileKind::Tbl => jobs.extend(diskrun::jobs_for(f, intact, 1, true, false)),
            _ => {}
        }
    }
    let n_intact = jobs.len();

    // ---- fault-injecting configuration, level 1
    let mut space_total = 0usize;
    let mut all: Vec<DJob> = vec![];
    for f in &files {
        let vs = diskfault::enumerate_c19(f, thorough);
        space_total += vs.len();
        let vs: Vec<_> = if thorough && !full {
            // every numeric token still gets one out-of-range value (round robin over the
            // six values); the full cross product is run with VERIF_C19_FULL=1
            vs.into_iter()
                .filter(|v| match &v.edit {
                    Edit::NumOor { line, tok, val } => {
                        diskfault::OOR_VALUES[(line + tok) % diskfault::OOR_VALUES.len()] == val.as_str()
                    }
                    _ => true,
                })
                .collect()
        } else {
            vs
        };
        all.extend(diskrun::jobs_for(f, vs, 1, false, false));
    }
    let n_cells = all.iter().map(|j| j.cell.clone()).collect::<BTreeSet<_>>().len();
    // quick: 3 per cell; thorough: up to VERIF_C19_PER_CELL (default 150) per cell, which covers
    // most cells completely; VERIF_C19_FULL=1: every variant (hours)
    let per_cell_thorough: usize = std::env::var("VERIF_C19_PER_CELL").ok().and_then(|s| s.parse().ok()).unwrap_or(150);
    let n_all = all.len();
    let selected: Vec<DJob> = if thorough && full {
        all
    } else if thorough {
        diskrun::stratified(all, per_cell_thorough, &mut rng)
    } else {
        // the side files are small and cheap: 12 per cell (3 per cell prefers the smallest
        // project, which has no interior walls and no systems)
        let (side, main): (Vec<DJob>, Vec<DJob>) = all.into_iter().partition(|j| {
            let k = crate::engines::disk::kind_of(&j.file);
            k == FileKind::Kyg || k == FileKind::Tbl
        });
        // 3 per cell; 10 per cell for blocks with non-ASCII text (fewer of them, and what goes
        // wrong there depends on where exactly the multi-byte characters sit)
        let (na, plain): (Vec<DJob>, Vec<DJob>) = main.into_iter().partition(|j| j.cell.contains("|non-ascii block"));
        let mut v = diskrun::stratified(plain, 3, &mut rng);
        v.extend(diskrun::stratified(na, 10, &mut rng));
        v.extend(diskrun::stratified(side, 12, &mut rng));
        v
    };
    let enumerated_completely = selected.len() == n_all;
    // side files also end to end (damaged file next to its intact project)
    let mut e2e_jobs: Vec<DJob> = selected
        .iter()
        .filter(|j| {
            let k = crate::engines::disk::kind_of(&j.file);
            k == FileKind::Kyg || k == FileKind::Tbl
        })
        .cloned()
        .map(|mut j| {
            j.e2e = true;
            j.cell = format!("{}|e2e", j.cell);
            j
        })
        .collect();
    if !thorough {
        rng.shuffle(&mut e2e_jobs);
        e2e_jobs.truncate(1500);
    }
    jobs.extend(selected);
    let n_l1 = jobs.len();
    eprintln!(
        "[C19] fault space {} variants in {} cells; running {} level-1 jobs + {} end-to-end",
        space_total,
        n_cells,
        n_l1,
        e2e_jobs.len()
    );
    let r1 = diskrun::run(jobs, L1_TIMEOUT_MS, &scratch.dir);
    eprintln!("[C19] level 1 done in {:.1}s", t0.elapsed().as_secs_f64());

    // ---- level 2: what collect_hulc_data always does next (indicator pass), on variants
    // the converter still accepted
    let mut l2: Vec<DJob> = r1
        .jobs
        .iter()
        .zip(r1.outcomes.iter())
        .skip(n_intact)
        .filter(|(j, o)| {
            crate::engines::disk::kind_of(&j.file) == FileKind::Ctehexml
                && matches!(o, Outcome::Result(v) if v["class"]=="ok" && v["changed"]==true)
        })
        .map(|(j, _)| {
            let mut j = j.clone();
            j.level = 2;
            j.cell = format!("{}|L2", j.cell);
            j
        })
        .collect();
    let l2_avail = l2.len();
    let l2_budget = if thorough { 6000 } else { 400 };
    if l2.len() > l2_budget {
        // stratified by cell first, then a seeded fill
        let mut picked = diskrun::stratified(l2.clone(), 1, &mut rng);
        if picked.len() > l2_budget {
            rng.shuffle(&mut picked);
            picked.truncate(l2_budget);
        } else {
            rng.shuffle(&mut l2);
            let have: HashSet<(String, String)> = picked
                .iter()
                .map(|j| (j.file.clone(), serde_json::to_string(&j.edit).unwrap()))
                .collect();
            for j in l2 {
                if picked.len() >= l2_budget {
                    break;
                }
                if !have.contains(&(j.file.clone(), serde_json::to_string(&j.edit).unwrap())) {
                    picked.push(j);
                }
            }
        }
        l2 = picked;
    }
    eprintln!(
        "[C19] level 2: {} of {} accepted variants + {} end-to-end side-file variants",
        l2.len(),
        l2_avail,
        e2e_jobs.len()
    );
    let mut jobs2 = l2;
    jobs2.extend(e2e_jobs);
    let r2 = diskrun::run(jobs2, L2_TIMEOUT_MS, &scratch.dir);

    // ---- judge
    if std::env::var("VERIF_DEBUG_SLOW").is_ok() {
        let mut slow: Vec<(u64, String)> = vec![];
        for r in [&r1, &r2] {
            for (j, o) in r.jobs.iter().zip(r.outcomes.iter()) {
                if let Outcome::Result(v) = o {
                    slow.push((v["ms"].as_u64().unwrap_or(0), format!("{} {:?} L{} e2e={} {}", j.file, j.edit, j.level, j.e2e, v["class"])));
                }
            }
        }
        slow.sort();
        for (ms, d) in slow.iter().rev().take(25) {
            eprintln!("[slow] {} ms {}", ms, d);
        }
    }
    let mut groups: BTreeMap<String, (Value, usize, DJob, String)> = BTreeMap::new();
    let mut classes: BTreeMap<String, BTreeMap<String, u64>> = BTreeMap::new();
    let mut fired: BTreeMap<String, u64> = BTreeMap::new();
    let mut hashes: HashSet<String> = HashSet::new();
    let mut distinct = 0u64;
    let mut harness_errors = vec![];
    let mut samples: Vec<Value> = vec![];
    let mut intact_report: Vec<Value> = vec![];
    let mut evaluations = 0u64;
    let mut stdout_nonempty = 0u64;
    for (ri, r) in [&r1, &r2].iter().enumerate() {
        for (i, (j, o)) in r.jobs.iter().zip(r.outcomes.iter()).enumerate() {
            let fk = crate::engines::disk::kind_of(&j.file).as_str();
            let cls = match o {
                Outcome::Result(v) => v["class"].as_str().unwrap_or("?").to_string(),
                Outcome::Abort { .. } => "abort".into(),
                Outcome::Timeout => "hang".into(),
            };
            if cls == "n/a" {
                continue;
            }
            evaluations += 1;
            if cls == "harness_error" {
                harness_errors.push(format!("{:?}", o));
            }
            *classes.entry(fk.to_string()).or_default().entry(cls.clone()).or_insert(0) += 1;
            if let Outcome::Result(v) = o {
                if v["changed"] == true {
                    *fired.entry(j.edit.kind_name().to_string()).or_insert(0) += 1;
                    let h = format!("{}|{}|{}|{}", j.file, j.level, j.e2e, v["hash"].as_str().unwrap_or(""));
                    if hashes.insert(h) {
                        distinct += 1;
                    }
                }
                if v["stdout_bytes"].as_u64().unwrap_or(0) > 0 {
                    stdout_nonempty += 1;
                }
            }
            if ri == 0 && i < n_intact {
                intact_report.push(json!({"file": j.file, "level": j.level, "e2e": j.e2e, "class": cls}));
            }
            if let Some((key, detail)) = violation_key_of(o, j) {
                let ks = key.to_string();
                let e = groups
                    .entry(ks)
                    .or_insert_with(|| (key.clone(), 0, j.clone(), detail.clone()));
                e.1 += 1;
                if diskrun::simplicity(j) < diskrun::simplicity(&e.2) {
                    e.2 = j.clone();
                    e.3 = detail;
                }
            }
            if samples.len() < 8 && (i % 9973 == 17 || (ri == 1 && i % 997 == 3)) {
                samples.push(json!({"job": j.to_json(), "cell": j.cell, "outcome_class": cls}));
            }
        }
    }
    if samples.is_empty() {
        if let Some(j) = r1.jobs.last() {
            samples.push(json!({"job": j.to_json(), "cell": j.cell}));
        }
    }
    let violations: Vec<Violation> = groups
        .into_values()
        .map(|(key, count, job, detail)| Violation {
            key,
            count,
            replay: json!({"engine":"diskfault","job": job.to_json(), "cell": job.cell}),
            detail,
        })
        .collect();
    let rep = Report {
        property: "C19".into(),
        tier: tier.into(),
        seed,
        level: "fault_enumeration".into(),
        violations,
        harness_errors: harness_errors.clone(),
    };
    let verdict = rep.conclude();
    let wall = t0.elapsed().as_secs_f64();
    let mut extra = Map::new();
    extra.insert("fault_space_size".into(), json!(space_total));
    extra.insert("cells".into(), json!(n_cells));
    extra.insert("fault_kinds_fired".into(), json!(fired));
    extra.insert("outcome_classes_by_file_kind".into(), json!(classes));
    extra.insert("distinct_violation_sites".into(), json!(rep.violations.len()));
    extra.insert("known_findings_hit".into(), json!(verdict.known_hit));
    extra.insert("intact_files".into(), json!(intact_report));
    extra.insert("level2_jobs".into(), json!(r2.jobs.len()));
    extra.insert("stdout_nonempty_cases".into(), json!(stdout_nonempty));
    extra.insert("seeds_per_hour".into(), json!((evaluations as f64 / wall.max(0.001) * 3600.0) as u64));
    extra.insert("simulated_time".into(), json!("n/a - no timers or deadlines in the system; cases reported instead"));
    extra.insert("components".into(), report::components());
    extra.insert("files".into(), json!(files.len()));
    let exhaustive = thorough && enumerated_completely;
    Evidence {
        property: "C19".into(),
        tier: tier.into(),
        seed,
        level: "fault_enumeration".into(),
        evaluations,
        distinct_nontrivial: distinct,
        rule: "every line of every shipped .ctehexml/.cte/KyG/.tbl file and of a few generated projects x edit kinds {line deleted, duplicated, truncated after / at a delimiter (thorough: mid-line), block removed / duplicated, quoted name renamed (also with a non-ASCII character in front, and with one of its last six characters made a two-byte character: cells per alphabetic prefix of the name), reference retargeted to another existing definition, delimiter dropped (quotes, '=', parentheses, '<', '>', and every ',' / ';' of the line up to the 16th, each with its own cell), number->text, number->out-of-range value, thorough: byte flip, CRLF flip}; the lines that open or close a CDATA section have per-file cells; thorough runs up to 150 per (file kind x block type x attribute x edit kind [x out-of-range value]) cell (VERIF_C19_PER_CELL; most cells are then complete; VERIF_C19_FULL=1 runs every variant), quick a seeded sample of 3 per cell. A case is non-trivial and distinct when the damaged text differs from the shipped file and its content hash differs from every other variant run at the same level".into(),
        samples,
        exhaustive,
        extra,
        assumptions: vec![
            "outcome oracle only: Ok or Err pass; panic, abort, watchdog and memory limit fail".into(),
            "harness built with unwinding, debug assertions and overflow checks on; a panic found here is the abort a release build (panic=abort) would show".into(),
            "legacy .cte files are converted through Data::new + the LIDER catalogue merge that parse_with_catalog performs".into(),
        ],
        wall_s: wall,
        violations: verdict.new_violations as u64,
    }
    .write();
    eprintln!(
        "[C19] {} evaluations, {} distinct damaged files, {} new violation sites, {} known findings hit, {:.1}s",
        evaluations,
        distinct,
        verdict.new_violations,
        verdict.known_hit.len(),
        wall
    );
    if !harness_errors.is_empty() {
        return 2;
    }
    if verdict.new_violations > 0 {
        1
    } else {
        0
    }
}
