//! C15 - the model checker reports exactly the broken links.

use super::modelrun::{self, ModelRunCfg, StepOutcome};
use crate::closure;
use crate::corpus;
use crate::modelfault::{self, MEdit};
use crate::orch::Scratch;
use crate::report::{self, Evidence, Report, Violation};
use crate::rng::{self, Rng};
use serde_json::{json, Map, Value};
use std::collections::{BTreeMap, HashSet};
use std::time::Instant;

pub fn bases() -> Vec<String> {
    let mut b: Vec<String> = corpus::model_files().into_iter().map(|(r, _)| r).collect();
    let root = crate::panics::repo_root();
    for d in corpus::project_dirs() {
        if let Some(f) = corpus::ctehexml_of(&d) {
            b.push(format!(
                "conv:{}",
                f.strip_prefix(&root).unwrap_or(&f).to_string_lossy()
            ));
        }
    }
    // the same projects converted with their result files: these models carry overrides
    for d in corpus::project_dirs() {
        if d.join("KyGananciasSolares.txt").exists() {
            b.push(format!("convx:{}", d.strip_prefix(&root).unwrap_or(&d).to_string_lossy()));
        }
    }
    for (k, _) in modelfault::minimal_sessions() {
        b.push(format!("min:{}", k));
    }
    // models converted from projects printed by the generator (basements, several floors,
    // multipliers, fins and overhangs, unconditioned spaces, own glazing library)
    for gseed in GEN_BASE_SEEDS {
        b.push(format!("conv:{}", crate::projgen::file_rel(*gseed)));
    }
    b
}

pub const GEN_BASE_SEEDS: &[u64] = &[101, 102, 103, 104, 105, 106, 107, 108];

/// Link pointers of the five checked kinds + bridge lengths, for a model value.
pub fn link_ptrs(v: &Value) -> (Vec<String>, Vec<String>) {
    let mut links = vec![];
    let mut bridges = vec![];
    for (i, w) in closure::collection(v, &["walls"]).iter().enumerate() {
        links.push(format!("/walls/{}/space", i));
        links.push(format!("/walls/{}/cons", i));
        if w.get("next_to").map(|x| x.is_string()).unwrap_or(false) {
            links.push(format!("/walls/{}/next_to", i));
        }
    }
    for (i, _) in closure::collection(v, &["windows"]).iter().enumerate() {
        links.push(format!("/windows/{}/wall", i));
        links.push(format!("/windows/{}/cons", i));
    }
    for (i, tb) in closure::collection(v, &["thermal_bridges"]).iter().enumerate() {
        if tb.get("l").and_then(|l| l.as_f64()).map(|l| l != 0.0).unwrap_or(false) {
            bridges.push(format!("/thermal_bridges/{}/l", i));
        }
    }
    (links, bridges)
}

fn keys_of(o: &StepOutcome) -> Vec<(Value, String)> {
    let mut out = vec![];
    match o {
        StepOutcome::Result(r) => {
            if !r["mismatch"].is_null() {
                out.push((
                    json!({"class":"checker_mismatch","missing": r["mismatch"]["missing"], "surplus": r["mismatch"]["surplus"]}),
                    format!("expected {} warnings, got {}", r["expected_n"], r["actual_n"]),
                ));
            }
            if r["check_modified_model"] == true {
                out.push((json!({"class":"check_modified_model"}), "as_json differs before/after check()".into()));
            }
            if r["ind_warnings_equal"] == false {
                out.push((
                    json!({"class":"indicator_warnings_differ"}),
                    "energy_indicators().warnings differs from check()".into(),
                ));
            }
            if !r["check_panics"].is_null() {
                let s = &r["check_panics"];
                out.push((
                    json!({"class":"check_panics","file":s["file"],"function":s["function"],"msg":s["msg"]}),
                    s["raw"].as_str().unwrap_or("").to_string(),
                ));
            }
        }
        StepOutcome::Abort(s) => out.push((json!({"class":"abort"}), s.clone())),
        StepOutcome::Timeout => out.push((json!({"class":"hang"}), "watchdog".into())),
        StepOutcome::ProbeRefFailed(_) => {}
    }
    out
}

fn cfg(with_ind: bool) -> ModelRunCfg {
    ModelRunCfg {
        mode: "c15".into(),
        probe: String::new(),
        with_indicators: with_ind,
        steps_per_job: 60,
        job_timeout_ms: 120_000,
        env: vec![],
        use_shim: false,
    }
}

fn replay_one(path: &str) -> i32 {
    let doc = report::read_replay(std::path::Path::new(path));
    let want = doc["violation_key"].clone();
    let scratch = Scratch::new("c15r");
    let step = doc["step"].clone();
    let with_ind = doc["with_indicators"].as_bool().unwrap_or(false);
    let o = modelrun::run_steps(&[step], &cfg(with_ind), &scratch.dir);
    let keys = keys_of(&o[0]);
    if let Some((k, d)) = keys.iter().find(|(k, _)| *k == want).or(keys.first()) {
        println!("VIOLATION property=C15 replay={}", path);
        println!("  reproduced key={} detail={}", k, d);
        1
    } else {
        println!("replay did not reproduce: {:?}", o[0]);
        0
    }
}

pub fn run(tier: &str, seed: u64, replay: Option<String>) -> i32 {
    if let Some(p) = replay {
        return replay_one(&p);
    }
    crate::panics::install_hook();
    let t0 = Instant::now();
    let thorough = tier == "thorough";
    let scratch = Scratch::new("c15");
    let mut rng = Rng::new(rng::derive(seed, "C15", 0));
    let bases = bases();
    // the orchestrator needs the base trees to enumerate pointers; the values are rebuilt
    // in the workers from the same sources
    let mut steps: Vec<Value> = vec![];
    let mut ind_steps: Vec<Value> = vec![];
    let mut n_single = 0usize;
    let mut n_multi = 0usize;
    let mut n_hist = 0usize;
    let mut n_nonfinite = 0usize;
    let mut n_unusual = 0usize;
    for b in &bases {
        let v = match crate::panics::contain(|| crate::engines::model::base_value(b)) {
            Ok(v) => v,
            Err(_) => continue,
        };
        let small = serde_json::to_string(&v).map(|s| s.len()).unwrap_or(0) < 120_000;
        // fault-free: a closed model gives nothing
        steps.push(json!({"base": b, "edits": [], "what": "intact"}));
        ind_steps.push(json!({"base": b, "edits": [], "what": "intact"}));
        let (links, bridges) = link_ptrs(&v);
        // every single link fault
        // redirect targets: a fresh id, the nil id, and the first id of EVERY other collection
        // (an id that exists - but in the wrong collection - is still a missing element)
        let mut targets: Vec<String> = vec!["fresh".into(), "nil".into()];
        for (name, path) in closure::COLLECTIONS {
            if !closure::collection(&v, path).is_empty() {
                targets.push(format!("other:{}", name));
            }
        }
        for p in &links {
            for to in &targets {
                if modelfault::link_target_collection(p) == to.strip_prefix("other:") {
                    continue;
                }
                let s = json!({"base": b, "edits": [MEdit::IdRedirected{ptr: p.clone(), to: to.clone()}], "what": "single"});
                if small && (thorough || rng.chance(1, 6)) {
                    ind_steps.push(s.clone());
                }
                steps.push(s);
                n_single += 1;
            }
        }
        // walls that have no adjacent space get one that does not exist (whatever their boundary type)
        for (i, w) in closure::collection(&v, &["walls"]).iter().enumerate() {
            if !w.get("next_to").map(|x| x.is_string()).unwrap_or(false) {
                for val in ["<fresh>", closure::NIL] {
                    let st = json!({"base": b, "edits": [MEdit::SetKey{ptr: format!("/walls/{}", i), key: "next_to".into(), value: json!(val)}], "what": "single"});
                    if small && i % 3 == 0 {
                        ind_steps.push(st.clone());
                    }
                    steps.push(st);
                    n_single += 1;
                }
            }
        }
        for p in &bridges {
            steps.push(json!({"base": b, "edits": [MEdit::NumberNegated{ptr: p.clone()}], "what": "single"}));
            n_single += 1;
            // lengths just below zero are negative too
            for tiny in [-0.001f64, -0.000001] {
                steps.push(json!({"base": b, "edits": [MEdit::SetValue{ptr: p.clone(), value: json!(tiny)}], "what": "single"}));
                n_single += 1;
            }
        }
        // seeded subsets of 2..20 simultaneous faults
        let all: Vec<MEdit> = links
            .iter()
            .map(|p| MEdit::IdRedirected { ptr: p.clone(), to: "fresh".into() })
            .chain(bridges.iter().map(|p| MEdit::NumberNegated { ptr: p.clone() }))
            .collect();
        if all.len() >= 2 {
            let n_sets = if thorough { 120 } else { 12 };
            for _ in 0..n_sets {
                let k = rng.range(2, 20.min(all.len()));
                let mut idx: Vec<usize> = (0..all.len()).collect();
                rng.shuffle(&mut idx);
                let mut edits: Vec<MEdit> = idx[..k].iter().map(|i| all[*i].clone()).collect();
                // mix the redirect targets
                for e in edits.iter_mut() {
                    if let MEdit::IdRedirected { to, ptr } = e {
                        let cand: Vec<&String> = targets
                            .iter()
                            .filter(|t| modelfault::link_target_collection(ptr) != t.strip_prefix("other:"))
                            .collect();
                        *to = (*rng.pick(&cand)).clone();
                    }
                }
                let st = json!({"base": b, "edits": edits, "what": "multi"});
                if small {
                    ind_steps.push(st.clone());
                }
                steps.push(st);
                n_multi += 1;
            }
        }
        // scale: every link of the model broken at once, and every second / third one (hundreds
        // of warnings for the larger models: limits, batching, early exits)
        if links.len() >= 2 {
            for (stride, to) in [(1usize, "fresh"), (2, "nil"), (3, "fresh"), (7, "fresh")] {
                let edits: Vec<MEdit> = links.iter().step_by(stride).map(|p| MEdit::IdRedirected { ptr: p.clone(), to: to.into() }).collect();
                let st = json!({"base": b, "edits": edits, "what": "multi"});
                if small || stride == 1 {
                    ind_steps.push(st.clone());
                }
                steps.push(st);
                n_multi += 1;
            }
        }
        // every link of one element broken at once (several warnings carry the same id)
        let mut by_elem: BTreeMap<String, Vec<String>> = BTreeMap::new();
        for p in &links {
            let elem = p.rsplitn(2, '/').last().unwrap_or("").to_string();
            by_elem.entry(elem).or_default().push(p.clone());
        }
        for (k, (_, ptrs)) in by_elem.iter().enumerate() {
            if ptrs.len() < 2 {
                continue;
            }
            let to = ["fresh", "nil"][k % 2];
            let edits: Vec<MEdit> = ptrs.iter().map(|p| MEdit::IdRedirected { ptr: p.clone(), to: to.into() }).collect();
            let st = json!({"base": b, "edits": edits, "what": "multi"});
            if small || k % 7 == 0 {
                ind_steps.push(st.clone());
            }
            steps.push(st);
            n_multi += 1;
        }
        // edit histories: deleting a space / construction / wall breaks several links at once;
        // duplicating the walls doubles every broken link
        for (coll, ptr) in [("spaces", "/spaces"), ("wallcons", "/cons/wallcons"), ("wincons", "/cons/wincons"), ("walls", "/walls")] {
            let n = closure::ids_of(&v, coll).len();
            let lim = if thorough { n } else { n.min(3) };
            for i in 0..lim {
                let st = json!({"base": b, "edits": [MEdit::ItemDeleted{ptr: format!("{}/{}", ptr, i)}], "what": "history"});
                if small {
                    ind_steps.push(st.clone());
                }
                steps.push(st);
                n_hist += 1;
            }
            if n > 0 {
                steps.push(json!({"base": b, "edits": [MEdit::ArrayEmptied{ptr: ptr.to_string()}], "what": "history"}));
                n_hist += 1;
            }
        }
        // closed but unusual models (whole-collection editor operations, uniform rescalings,
        // duplicated elements): the checker must still say nothing / exactly the broken links
        {
            let unusual: Vec<Vec<MEdit>> = vec![
                vec![MEdit::ScaleAll { gptr: "/windows/*/geometry/width".into(), factor: 10.0 }],
                vec![MEdit::ScaleAll { gptr: "/windows/*/geometry/height".into(), factor: 10.0 }, MEdit::ScaleAll { gptr: "/windows/*/geometry/width".into(), factor: 3.0 }],
                vec![MEdit::ScaleAll { gptr: "/walls/*/geometry/polygon/*/*".into(), factor: 0.02 }],
                vec![MEdit::ScaleAll { gptr: "/spaces/*/height".into(), factor: 0.05 }],
                vec![MEdit::MoveBuildingZ { dz: -4.0, walls_to_ground: true }],
                vec![MEdit::SetAll { ptr: "/spaces".into(), key: "kind".into(), value: json!("UNINHABITED"), only_if: None }],
                vec![MEdit::SetAll { ptr: "/spaces".into(), key: "inside_tenv".into(), value: json!(false), only_if: None }],
                vec![MEdit::SetAll { ptr: "/walls".into(), key: "bounds".into(), value: json!("ADIABATIC"), only_if: None }],
                vec![MEdit::SetAll { ptr: "/thermal_bridges".into(), key: "l".into(), value: json!(0.0), only_if: None }],
                vec![MEdit::ArrayEmptied { ptr: "/shades".into() }, MEdit::ArrayEmptied { ptr: "/thermal_bridges".into() }],
                vec![MEdit::ArrayDuplicated { ptr: "/windows".into() }],
                vec![MEdit::ArrayDuplicated { ptr: "/spaces".into() }],
                vec![MEdit::ArrayDuplicated { ptr: "/cons/wallcons".into() }],
                vec![MEdit::RenameAllNames],
                vec![MEdit::SetAll { ptr: "/walls".into(), key: "name".into(), value: json!("mismo nombre"), only_if: None }],
                // one id living in two collections (ids only have to be unique inside a collection)
                vec![MEdit::ShareIdAcross { a: "wallcons".into(), b: "wincons".into() }],
                vec![MEdit::ShareIdAcross { a: "wincons".into(), b: "wallcons".into() }],
                vec![MEdit::ShareIdAcross { a: "spaces".into(), b: "walls".into() }],
                vec![MEdit::ShareIdAcross { a: "walls".into(), b: "spaces".into() }],
                vec![MEdit::ShareIdAcross { a: "walls".into(), b: "wallcons".into() }],
                vec![MEdit::ShareIdAcross { a: "spaces".into(), b: "wincons".into() }],
                vec![MEdit::ShareIdAcross { a: "windows".into(), b: "walls".into() }],
                vec![MEdit::ShareIdAcross { a: "thermal_bridges".into(), b: "spaces".into() }],
                // an element whose own id is the nil id, every link to it following: it exists,
                // so the model is closed
                vec![MEdit::ShareIdAcross { a: "nil".into(), b: "spaces".into() }],
                vec![MEdit::ShareIdAcross { a: "nil".into(), b: "walls".into() }],
                vec![MEdit::ShareIdAcross { a: "nil".into(), b: "wallcons".into() }],
                vec![MEdit::ShareIdAcross { a: "nil".into(), b: "wincons".into() }],
                // windows moved far outside their walls
                vec![MEdit::ScaleAll { gptr: "/windows/*/geometry/position/*".into(), factor: 25.0 }],
            ];
            let mut unusual = unusual;
            // closed models on which the indicator computation itself has something to say
            // (calendars that do not add up to 365 days, windows in walls without a position):
            // whatever it says, the warnings it returns must be the checker's
            let mut used_years: Vec<usize> = vec![];
            let people: std::collections::BTreeSet<String> = closure::collection(&v, &["loads"]).iter().filter_map(|l| l.get("people_schedule").and_then(|x| x.as_str()).map(|x| x.to_string())).collect();
            for (i, y) in closure::collection(&v, &["schedules", "year"]).iter().enumerate() {
                if y.get("id").and_then(|x| x.as_str()).map(|id| people.contains(id)).unwrap_or(false) {
                    used_years.push(i);
                }
            }
            for i in used_years.iter().take(3) {
                unusual.push(vec![MEdit::ArrayTruncated { ptr: format!("/schedules/year/{}/values", i) }]);
                unusual.push(vec![MEdit::ArrayDuplicated { ptr: format!("/schedules/year/{}/values", i) }]);
            }
            let win_walls: std::collections::BTreeSet<String> = closure::collection(&v, &["windows"]).iter().filter_map(|w| w.get("wall").and_then(|x| x.as_str()).map(|x| x.to_string())).collect();
            for (i, w) in closure::collection(&v, &["walls"]).iter().enumerate().filter(|(_, w)| w.get("id").and_then(|x| x.as_str()).map(|id| win_walls.contains(id)).unwrap_or(false)).take(3) {
                let _ = w;
                unusual.push(vec![MEdit::KeyDeleted { ptr: format!("/walls/{}/geometry/position", i) }]);
                unusual.push(vec![MEdit::KeyDeleted { ptr: format!("/walls/{}/geometry", i) }]);
            }
            for (k, es) in unusual.iter().enumerate() {
                let mut es = es.clone();
                // half of them together with one broken link
                if k % 2 == 1 && !links.is_empty() {
                    es.push(MEdit::IdRedirected { ptr: rng.pick(&links).clone(), to: "fresh".into() });
                }
                let st = json!({"base": b, "edits": es, "what": "unusual", "require_all": false});
                if small || k % 3 == 0 {
                    ind_steps.push(st.clone());
                }
                steps.push(st);
                n_unusual += 1;
            }
        }
        // a number of the model is not finite (1e39 loads as +inf in an f32 field), alone and
        // together with a broken link of the same or another element: the warnings that come
        // with the indicators must still be the checker's
        {
            let mut nums: Vec<String> = vec![];
            closure::walk_numbers(&v, &mut String::new(), &mut |p, _| {
                if (p.starts_with("/walls/") || p.starts_with("/windows/") || p.starts_with("/shades/") || p.starts_with("/thermal_bridges/") || p.starts_with("/spaces/"))
                    && !p.ends_with("/l")
                {
                    nums.push(p.to_string());
                }
            });
            let n = if thorough { 60 } else { 10 };
            for k in 0..n {
                if nums.is_empty() || !small {
                    break;
                }
                let np = rng.pick(&nums).clone();
                let val = if k % 2 == 0 { 1e39 } else { -1e39 };
                let mut edits = vec![MEdit::SetValue { ptr: np.clone(), value: json!(val) }];
                if k % 3 != 0 && !links.is_empty() {
                    // prefer a link of the same element
                    let elem = np.splitn(4, '/').take(3).collect::<Vec<_>>().join("/");
                    let same: Vec<&String> = links.iter().filter(|l| l.starts_with(&format!("{}/", elem))).collect();
                    let lp = if !same.is_empty() && k % 3 == 1 { (*rng.pick(&same)).clone() } else { rng.pick(&links).clone() };
                    edits.push(MEdit::IdRedirected { ptr: lp, to: "fresh".into() });
                }
                let st = json!({"base": b, "edits": edits, "what": "nonfinite"});
                ind_steps.push(st.clone());
                steps.push(st);
                n_nonfinite += 1;
            }
        }
        if !links.is_empty() {
            let h1 = json!({"base": b, "edits": [MEdit::IdRedirected{ptr: links[0].clone(), to: "fresh".into()}, MEdit::ArrayDuplicated{ptr: "/walls".into()}], "what": "history"});
            let h2 = json!({"base": b, "edits": [MEdit::IdRedirected{ptr: links[links.len()-1].clone(), to: "nil".into()}, MEdit::ArrayDuplicated{ptr: "/windows".into()}], "what": "history"});
            ind_steps.push(h1.clone());
            ind_steps.push(h2.clone());
            steps.push(h1);
            steps.push(h2);
            n_hist += 2;
        }
    }
    eprintln!(
        "[C15] {} bases; {} single link faults, {} multi-fault sets, {} histories; {} steps also compare the indicator warnings",
        bases.len(), n_single, n_multi, n_hist, ind_steps.len()
    );
    let out = modelrun::run_steps(&steps, &cfg(false), &scratch.dir);
    let out_ind = modelrun::run_steps(&ind_steps, &cfg(true), &scratch.dir);

    let mut groups: BTreeMap<String, (Value, usize, Value, String, usize)> = BTreeMap::new();
    let mut evaluations = 0u64;
    let mut hashes: HashSet<String> = HashSet::new();
    let mut fired: BTreeMap<String, u64> = BTreeMap::new();
    let mut broken_sets = 0u64;
    let mut samples = vec![];
    let mut classes: BTreeMap<String, u64> = BTreeMap::new();
    for (with_ind, (ss, oo)) in [(false, (&steps, &out)), (true, (&ind_steps, &out_ind))] {
        for (i, (s, o)) in ss.iter().zip(oo.iter()).enumerate() {
            if let StepOutcome::Result(r) = o {
                let cls = r["class"].as_str().unwrap_or("?").to_string();
                *classes.entry(cls.clone()).or_insert(0) += 1;
                if cls == "n/a" {
                    continue;
                }
                evaluations += 1;
                if cls == "loaded" && r["expected_n"].as_u64().unwrap_or(0) > 0 {
                    if hashes.insert(format!("{}|{}", with_ind, r["hash"].as_str().unwrap_or(""))) {
                        broken_sets += 1;
                    }
                    for k in r["kinds"].as_array().cloned().unwrap_or_default() {
                        *fired.entry(k.as_str().unwrap_or("").to_string()).or_insert(0) += 1;
                    }
                }
            } else {
                evaluations += 1;
            }
            for (key, detail) in keys_of(o) {
                let simp = s["edits"].as_array().map(|a| a.len()).unwrap_or(0) * 1000 + s["base"].as_str().map(|b| b.len()).unwrap_or(0);
                let replay = json!({"engine":"modelfault","step": s, "with_indicators": with_ind});
                let e = groups
                    .entry(key.to_string())
                    .or_insert_with(|| (key.clone(), 0, replay.clone(), detail.clone(), simp));
                e.1 += 1;
                if simp < e.4 {
                    e.2 = replay;
                    e.3 = detail;
                    e.4 = simp;
                }
            }
            if samples.len() < 6 && i % 1301 == 77 {
                samples.push(json!({"step": s, "outcome": match o { StepOutcome::Result(r) => r.clone(), _ => json!("worker died") }}));
            }
        }
    }
    if samples.is_empty() {
        samples.push(json!({"step": steps.last()}));
    }
    let violations: Vec<Violation> = groups
        .into_values()
        .map(|(key, count, replay, detail, _)| Violation { key, count, replay, detail })
        .collect();
    let rep = Report {
        property: "C15".into(),
        tier: tier.into(),
        seed,
        level: "fault_enumeration".into(),
        violations,
        harness_errors: vec![],
    };
    let verdict = rep.conclude();
    let wall = t0.elapsed().as_secs_f64();
    let mut extra = Map::new();
    extra.insert("bases".into(), json!(bases));
    extra.insert("single_link_faults".into(), json!(n_single));
    extra.insert("multi_fault_sets".into(), json!(n_multi));
    extra.insert("edit_histories".into(), json!(n_hist));
    extra.insert("nonfinite_number_steps".into(), json!(n_nonfinite));
    extra.insert("closed_but_unusual_model_steps".into(), json!(n_unusual));
    extra.insert("steps_comparing_indicator_warnings".into(), json!(ind_steps.len()));
    extra.insert("fault_kinds_fired".into(), json!(fired));
    extra.insert("step_classes".into(), json!(classes));
    extra.insert("known_findings_hit".into(), json!(verdict.known_hit));
    extra.insert("seeds_per_hour".into(), json!((evaluations as f64 / wall.max(0.001) * 3600.0) as u64));
    extra.insert("simulated_time".into(), json!("n/a - no timers in the system"));
    extra.insert("components".into(), report::components());
    Evidence {
        property: "C15".into(),
        tier: tier.into(),
        seed,
        level: "fault_enumeration".into(),
        evaluations,
        distinct_nontrivial: broken_sets,
        rule: "for the 7 shipped models, the 12 converted projects and the minimal editor-built models: every link of the five checked kinds redirected to a fresh id, the nil id and the first id of every other collection of the model, every non-zero bridge length negated (singles, all of them in both tiers); seeded sets of 2..20 simultaneous faults; edit histories (every space / construction / wall deleted, collections emptied, walls or windows duplicated after a fault); seeded steps in which a geometry / position / psi number is +-1e39 (infinite once loaded), alone or with a broken link. Ground truth is recomputed from the loaded model after the edits (multiset of ids whose target is absent + bridges with l<0) and compared with the multiset of ids in check(); also check() must not change as_json() and energy_indicators().warnings must equal check(). Non-trivial = the loaded model has at least one broken link; distinct by content hash".into(),
        samples,
        exhaustive: true,
        extra,
        assumptions: vec![
            "a link to the nil id or to an id of another collection is a link to a missing element, unless an element of the target collection owns that id (closed variants give the nil id to an element)".into(),
            "bridge lengths equal to 0 are skipped (-0.0 is neither clearly negative nor clearly not)".into(),
            "the indicator-warnings comparison is skipped for a model whose indicator computation fails (judged by C14)".into(),
        ],
        wall_s: wall,
        violations: verdict.new_violations as u64,
    }
    .write();
    eprintln!(
        "[C15] {} evaluations, {} distinct broken-link models, {} new violations, {} known, {:.1}s",
        evaluations, broken_sets, verdict.new_violations, verdict.known_hit.len(), wall
    );
    if verdict.new_violations > 0 {
        1
    } else {
        0
    }
}
