//! Fault-free pass over the corpus with timings (development aid and strict pass).

use crate::corpus::{self, FileKind};
use crate::engines::disk;
use crate::panics::contain;
use std::time::Instant;

pub fn main(_args: &[String]) -> i32 {
    crate::panics::install_hook();
    let files = corpus::load(&[FileKind::Ctehexml, FileKind::Cte, FileKind::Kyg, FileKind::Tbl]);
    for f in &files {
        let t0 = Instant::now();
        let r = contain(|| match f.kind {
            FileKind::Ctehexml => disk::convert_ctehexml(&f.text, if std::env::var("L2").is_ok() {2} else {1}).map(|_| ()),
            FileKind::Cte => disk::convert_cte(&f.text).map(|_| ()),
            FileKind::Kyg => hulc::kyg::parse(&f.text).map(|_| ()),
            FileKind::Tbl => Ok(()),
        });
        let ms = t0.elapsed().as_secs_f64() * 1000.0;
        let lines = f.text.lines().count();
        let cls = match &r {
            Ok(Ok(())) => "ok".to_string(),
            Ok(Err(e)) => format!("err {}", format!("{}", e).lines().next().unwrap_or("")),
            Err(p) => format!("PANIC {}:{} {}", p.site.file, p.line, p.site.msg),
        };
        println!("{:9} {:7} lines {:8.1} ms  {}  {}", f.kind.as_str(), lines, ms, f.rel, cls);
    }
    0
}
