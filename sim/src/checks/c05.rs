//! C05 - export and indicators are deterministic, reproducible and history-independent.
//! Four simulations share one oracle: every operation result must equal the result of the
//! same operation executed alone, first, in a fresh process (hash seed 0, one thread).

use crate::baton::Strategy;
use crate::corpus::{self, FileKind};
use crate::modelfault::{self, MEdit};
use crate::orch::{self, Chunk, Outcome, RunOpts, Scratch};
use crate::report::{self, Evidence, Report, Violation};
use crate::rng::{self, Rng};
use serde_json::{json, Map, Value};
use std::collections::{BTreeMap, BTreeSet, HashMap, HashSet};
use std::path::Path;
use std::time::Instant;

pub fn op_key(op: &Value) -> String {
    let mut o = op.clone();
    if let Some(m) = o.as_object_mut() {
        m.remove("want_text");
        // a copy of a project elsewhere is the same project: same reference
        if m.get("op").and_then(|v| v.as_str()) == Some("convert_dir_copy") {
            m.insert("op".into(), json!("convert_dir"));
            m.remove("copy_name");
            m.remove("second_project");
        }
    }
    serde_json::to_string(&o).unwrap()
}

pub fn env_of(hash_seed: u64, fake_time: Option<u64>) -> Vec<(String, String)> {
    let mut e = vec![("VERIF_HASH_SEED".to_string(), hash_seed.to_string())];
    // environment noise derived from the seed (proc.env): none of it may matter
    if hash_seed != 0 {
        let tz = ["UTC", "Europe/Madrid", "Pacific/Kiritimati", "America/Caracas"][(hash_seed % 4) as usize];
        let lang = ["C", "es_ES.UTF-8", "en_US.UTF-8", "tr_TR.UTF-8"][((hash_seed / 4) % 4) as usize];
        e.push(("TZ".to_string(), tz.to_string()));
        e.push(("LANG".to_string(), lang.to_string()));
        e.push(("LC_ALL".to_string(), lang.to_string()));
        e.push(("USER".to_string(), format!("usuario{}", hash_seed % 7)));
        e.push(("HOME".to_string(), format!("/home/usuario{}", hash_seed % 7)));
        e.push(("RUST_LOG".to_string(), ["", "error", "debug", "trace"][((hash_seed / 16) % 4) as usize].to_string()));
        // proc.cpu_count: CPUs visible to the process (0 = all)
        e.push(("VERIF_CPUS".to_string(), ["0", "1", "2", "5"][((hash_seed / 256) % 4) as usize].to_string()));
        e.push(("NO_COLOR".to_string(), ["", "1"][((hash_seed / 2) % 2) as usize].to_string()));
        // proc.slow_clock: 0 = real clock; else every monotonic read is 1 ms / 2 s / 1 h later
        e.push(("VERIF_MONO_STEP_NS".to_string(), ["0", "1000000", "2000000000", "3600000000000"][((hash_seed / 64) % 4) as usize].to_string()));
    }
    if let Some(t) = fake_time {
        e.push(("VERIF_FAKE_TIME".to_string(), t.to_string()));
    }
    e
}

/// Each job runs in its own fresh worker process with its own environment.
pub fn run_proc_jobs(jobs: &[(Value, Vec<(String, String)>)], scratch: &Path) -> Vec<Outcome> {
    run_proc_jobs_t(jobs, scratch, 300_000)
}

pub fn run_proc_jobs_t(jobs: &[(Value, Vec<(String, String)>)], scratch: &Path, timeout_ms: u64) -> Vec<Outcome> {
    let chunks: Vec<Chunk> = jobs
        .iter()
        .enumerate()
        .map(|(i, (j, env))| Chunk {
            env: env.clone(),
            jobs: vec![(i, j.clone())],
        })
        .collect();
    let opts = RunOpts {
        engine: "proc".into(),
        workers: orch::n_workers(),
        job_timeout_ms: timeout_ms,
        mem_mb: 6144,
        use_shim: true,
    };
    let res = orch::run_chunks(chunks, &opts, scratch);
    (0..jobs.len())
        .map(|i| {
            res.get(&i).cloned().unwrap_or_else(|| Outcome::Abort {
                status: { crate::orch::note_harness_error("job lost by the orchestrator"); "job lost".into() },
                stderr_tail: String::new(),
            })
        })
        .collect()
}

pub fn single_job(op: &Value) -> Value {
    json!({"t":"proc","threads":[[op]],"sched":{"strategy":"rr","q":1000000},"sched_seed":0})
}

/// Pool of indicator operations: each shipped model plus variants that differ from it in
/// exactly one respect a too-coarse cache key would miss.
pub fn indicator_pool(thorough: bool, rng: &mut Rng) -> Vec<Value> {
    let mut out = vec![];
    let files: Vec<String> = corpus::model_files().into_iter().map(|(r, _)| r).collect();
    for b in &files {
        let v: Value = serde_json::from_slice(&corpus::read_rel(b).unwrap_or_default()).unwrap_or(Value::Null);
        let own = v["meta"]["climate"].as_str().unwrap_or("D3").to_string();
        out.push(json!({"op":"indicators","base":b,"edits":[]}));
        let zones: Vec<&str> = if thorough {
            modelfault::CLIMATES.iter().copied().filter(|z| *z != own).collect()
        } else {
            let mut z: Vec<&str> = modelfault::CLIMATES.iter().copied().filter(|z| *z != own).collect();
            rng.shuffle(&mut z);
            z.truncate(2);
            z
        };
        for z in zones {
            out.push(json!({"op":"indicators","base":b,"edits":[MEdit::SetClimate{zone: z.to_string()}]}));
        }
        if v["shades"].as_array().map(|a| !a.is_empty()).unwrap_or(false) {
            out.push(json!({"op":"indicators","base":b,"edits":[MEdit::SetValue{ptr:"/shades/0/geometry/position".into(), value: json!([1.0, -0.4, 1.5])}]}));
        }
        if v["windows"].as_array().map(|a| !a.is_empty()).unwrap_or(false) {
            out.push(json!({"op":"indicators","base":b,"edits":[MEdit::SetValue{ptr:"/windows/0/geometry/setback".into(), value: json!(0.6)}]}));
        }
        if v["cons"]["materials"][0]["conductivity"].is_number() {
            out.push(json!({"op":"indicators","base":b,"edits":[MEdit::ScaleNumber{ptr:"/cons/materials/0/conductivity".into(), factor: 2.0}]}));
        }
        out.push(json!({"op":"indicators","base":b,"edits":[MEdit::RenameAllNames]}));
        out.push(json!({"op":"indicators","base":b,"edits":[MEdit::RemapAllIds]}));
    }
    for (k, _) in modelfault::minimal_sessions() {
        out.push(json!({"op":"indicators","base":format!("min:{}", k),"edits":[]}));
    }
    out
}

#[derive(Clone, Debug)]
struct Case {
    mode: &'static str,
    job: Value,
    env: Vec<(String, String)>,
}

/// Judge one executed case against the isolated references.
fn judge(case: &Case, o: &Outcome, refs: &HashMap<String, (String, String)>) -> Vec<(Value, String, Option<(usize, usize)>)> {
    let mut out = vec![];
    match o {
        Outcome::Result(v) => {
            let rep = &v["report"];
            if rep["deadlock"] == true {
                out.push((
                    json!({"class":"deadlock","locks":rep["lock_names"]}),
                    format!("no enabled thread while {} unfinished", rep["stuck_threads"]),
                    None,
                ));
            }
            let threads = case.job["threads"].as_array().cloned().unwrap_or_default();
            for (ti, ops) in threads.iter().enumerate() {
                for (oi, op) in ops.as_array().cloned().unwrap_or_default().iter().enumerate() {
                    let r = &v["ops"][ti][oi];
                    if r.is_null() {
                        continue;
                    }
                    let kind = op["op"].as_str().unwrap_or("");
                    let cls = r["class"].as_str().unwrap_or("?");
                    if cls == "fuel" {
                        out.push((json!({"class":"fuel_exhausted","op":kind}), "loop bound exceeded under the scheduler".into(), Some((ti, oi))));
                        continue;
                    }
                    match kind {
                        "convert_edited" => {
                            if cls == "ok" && r["changed_n"].as_u64().unwrap_or(0) > 0 {
                                out.push((
                                    json!({"class":"ids_changed_by_unrelated_definition","collections":r["collections_changed"]}),
                                    format!("adding {} changed the id of {} existing elements, e.g. {}", r["added"], r["changed_n"], r["changed"]),
                                    Some((ti, oi)),
                                ));
                            } else if cls == "err" && r["err"].as_str().unwrap_or("").starts_with("edited project no longer converts") {
                                out.push((
                                    json!({"class":"unrelated_definition_breaks_conversion"}),
                                    r["err"].as_str().unwrap_or("").to_string(),
                                    Some((ti, oi)),
                                ));
                            }
                        }
                        "refpair" => {
                            if cls == "ok" && r["equal"] == false {
                                out.push((
                                    json!({"class":"reference_model_differs","paths":r["diff_paths"]}),
                                    format!("{} -> {}: {}", op["project"], op["model"], r["diffs"]),
                                    Some((ti, oi)),
                                ));
                            } else if cls != "ok" {
                                out.push((
                                    json!({"class":"reference_project_does_not_convert","project":op["project"]}),
                                    format!("{:?}", r),
                                    Some((ti, oi)),
                                ));
                            }
                        }
                        _ => {
                            if let Some((rc, rh)) = refs.get(&op_key(op)) {
                                if cls == "panic" && rc != "panic" {
                                    out.push((
                                        json!({"class":"panic_only_in_company","mode":case.mode,"op":kind,"file":r["site"]["file"],"function":r["site"]["function"],"msg":r["site"]["msg"]}),
                                        format!("{} (isolated run: {})", r["raw"].as_str().unwrap_or(""), rc),
                                        Some((ti, oi)),
                                    ));
                                } else if cls != rc.as_str() || (cls != "panic" && r["hash"].as_str().unwrap_or("") != rh) {
                                    out.push((
                                        json!({"class":"differs_from_isolated_reference","mode":case.mode,"op":kind}),
                                        format!("op {} gave {}:{} but {}:{} alone in a fresh process", op_key(op), cls, r["hash"].as_str().unwrap_or(""), rc, rh),
                                        Some((ti, oi)),
                                    ));
                                }
                            }
                        }
                    }
                }
            }
        }
        Outcome::Abort { status, stderr_tail } => out.push((
            json!({"class":"process_died","mode":case.mode}),
            format!("{} | {}", status, stderr_tail.lines().last().unwrap_or("")),
            None,
        )),
        Outcome::Timeout => out.push((json!({"class":"hang","mode":case.mode}), "watchdog".into(), None)),
    }
    out
}

pub fn compute_refs(ops: &[Value], scratch: &Path) -> HashMap<String, (String, String)> {
    let mut uniq: Vec<Value> = vec![];
    let mut seen = HashSet::new();
    for op in ops {
        if seen.insert(op_key(op)) {
            uniq.push(op.clone());
        }
    }
    let jobs: Vec<(Value, Vec<(String, String)>)> = uniq.iter().map(|op| (single_job(op), env_of(0, None))).collect();
    let outs = run_proc_jobs(&jobs, scratch);
    let mut refs = HashMap::new();
    for (op, o) in uniq.iter().zip(outs.iter()) {
        let (c, h) = match o {
            Outcome::Result(v) => {
                let r = &v["ops"][0][0];
                (r["class"].as_str().unwrap_or("?").to_string(), r["hash"].as_str().unwrap_or("").to_string())
            }
            Outcome::Abort { .. } => ("abort".to_string(), String::new()),
            Outcome::Timeout => ("hang".to_string(), String::new()),
        };
        refs.insert(op_key(op), (c, h));
    }
    refs
}

fn ops_of(job: &Value) -> Vec<Value> {
    job["threads"]
        .as_array()
        .map(|a| a.iter().flat_map(|t| t.as_array().cloned().unwrap_or_default()).collect())
        .unwrap_or_default()
}

/// Shrink a failing case: fewer threads, fewer ops, then a script with fewer switches.
fn minimise(case: &Case, key: &Value, refs: &HashMap<String, (String, String)>, scratch: &Path) -> (Case, usize) {
    let mut best = case.clone();
    let mut attempts = 0usize;
    let still_fails = |c: &Case, attempts: &mut usize| -> Option<Value> {
        *attempts += 1;
        let o = run_proc_jobs(&[(c.job.clone(), c.env.clone())], scratch);
        if judge(c, &o[0], refs).iter().any(|(k, _, _)| k == key) {
            match &o[0] {
                Outcome::Result(v) => Some(v.clone()),
                _ => Some(Value::Null),
            }
        } else {
            None
        }
    };
    // 1. whole threads
    loop {
        let n = best.job["threads"].as_array().map(|a| a.len()).unwrap_or(0);
        if n <= 1 || attempts > 60 {
            break;
        }
        let mut improved = false;
        for t in (0..n).rev() {
            let mut c = best.clone();
            c.job["threads"].as_array_mut().unwrap().remove(t);
            if still_fails(&c, &mut attempts).is_some() {
                best = c;
                improved = true;
                break;
            }
        }
        if !improved {
            break;
        }
    }
    // 2. single ops
    loop {
        if attempts > 140 {
            break;
        }
        let mut improved = false;
        let nt = best.job["threads"].as_array().map(|a| a.len()).unwrap_or(0);
        'outer: for t in 0..nt {
            let no = best.job["threads"][t].as_array().map(|a| a.len()).unwrap_or(0);
            for i in (0..no).rev() {
                let total: usize = ops_of(&best.job).len();
                if total <= 1 {
                    break 'outer;
                }
                let mut c = best.clone();
                c.job["threads"][t].as_array_mut().unwrap().remove(i);
                if still_fails(&c, &mut attempts).is_some() {
                    best = c;
                    improved = true;
                    break 'outer;
                }
            }
        }
        if !improved {
            break;
        }
    }
    // 2b. threads left without operations
    loop {
        let nt = best.job["threads"].as_array().map(|a| a.len()).unwrap_or(0);
        let empty = (0..nt).find(|t| best.job["threads"][*t].as_array().map(|a| a.is_empty()).unwrap_or(false));
        match empty {
            Some(t) if nt > 1 && attempts < 160 => {
                let mut c = best.clone();
                c.job["threads"].as_array_mut().unwrap().remove(t);
                if still_fails(&c, &mut attempts).is_some() {
                    best = c;
                } else {
                    break;
                }
            }
            _ => break,
        }
    }
    // 3. fix the schedule as a script and drop context switches
    let nt = best.job["threads"].as_array().map(|a| a.len()).unwrap_or(0);
    if nt > 1 {
        let mut c = best.clone();
        c.job["want_trace"] = json!(true);
        if let Some(v) = still_fails(&c, &mut attempts) {
            if let Some(script) = v["script"].as_array() {
                let mut cur: Vec<(usize, usize)> = script
                    .iter()
                    .filter_map(|p| Some((p.get(0)?.as_u64()? as usize, p.get(1)?.as_u64()? as usize)))
                    .collect();
                let mut s = best.clone();
                s.job["sched"] = json!({"strategy":"script","decisions":cur});
                if still_fails(&s, &mut attempts).is_some() {
                    best = s;
                    let keys: Vec<usize> = cur.iter().map(|(k, _)| *k).collect();
                    for k in keys.into_iter().rev() {
                        if attempts > 220 {
                            break;
                        }
                        let mut trial = cur.clone();
                        trial.retain(|(kk, _)| *kk != k);
                        let mut s = best.clone();
                        s.job["sched"] = json!({"strategy":"script","decisions":trial});
                        if still_fails(&s, &mut attempts).is_some() {
                            cur = trial;
                            best = s;
                        }
                    }
                }
            }
        }
    }
    (best, attempts)
}

fn replay_one(path: &str) -> i32 {
    let doc = report::read_replay(Path::new(path));
    let want = doc["violation_key"].clone();
    let scratch = Scratch::new("c05r");
    let env: Vec<(String, String)> = doc["env"]
        .as_object()
        .map(|o| o.iter().map(|(k, v)| (k.clone(), v.as_str().unwrap_or("").to_string())).collect())
        .unwrap_or_default();
    let case = Case {
        mode: match doc["mode"].as_str().unwrap_or("") {
            "fresh_process" => "fresh_process",
            "history" => "history",
            "fixed" => "fixed",
            _ => "schedule",
        },
        job: doc["job"].clone(),
        env,
    };
    let refs = compute_refs(&ops_of(&case.job), &scratch.dir);
    let o = run_proc_jobs(&[(case.job.clone(), case.env.clone())], &scratch.dir);
    let keys = judge(&case, &o[0], &refs);
    if let Some((k, d, _)) = keys.iter().find(|(k, _, _)| *k == want).or(keys.first()) {
        println!("VIOLATION property=C05 replay={}", path);
        println!("  reproduced key={} detail={}", k, d);
        1
    } else {
        println!("replay did not reproduce");
        0
    }
}

pub fn run(tier: &str, seed: u64, replay: Option<String>) -> i32 {
    if let Some(p) = replay {
        return replay_one(&p);
    }
    let t0 = Instant::now();
    let thorough = tier == "thorough";
    let scratch = Scratch::new("c05");
    let mut rng = Rng::new(rng::derive(seed, "C05", 0));
    let root = crate::panics::repo_root();

    // ---- operation pools
    let mut conv_ops: Vec<Value> = vec![];
    for d in corpus::project_dirs() {
        let rel = d.strip_prefix(&root).unwrap_or(&d).to_string_lossy().to_string();
        conv_ops.push(json!({"op":"convert_dir","project":rel,"extra":false}));
        conv_ops.push(json!({"op":"convert_dir","project":rel,"extra":true}));
    }
    let mut files = corpus::load(&[FileKind::Ctehexml, FileKind::Cte]);
    // projects printed by the generator join every pool below (repeat / fresh process / threads /
    // revised copies / unrelated definitions)
    let gen_base = rng.next_u64() % 1_000_000;
    files.extend(corpus::generated((0..if thorough { 24 } else { 6 }).map(|k| gen_base + k)));
    // ... and two self-contained projects without any profile or schedule block
    files.extend(corpus::generated((0..2).map(|k| crate::projgen::SELF_CONTAINED_FROM + k)));
    for f in &files {
        conv_ops.push(json!({"op":"convert_text","file":f.rel}));
    }
    // variants of the project texts: one number inside one by-name definition changed (a
    // revised copy of the same project: same names, one property different)
    let mut variant_ops: Vec<Value> = vec![];
    for f in files.iter().filter(|f| f.kind == FileKind::Ctehexml || thorough) {
        let lines = crate::diskfault::split_lines(&f.text);
        let blocks: Vec<_> = crate::diskfault::scan_blocks(&lines)
            .into_iter()
            .filter(|b| matches!(b.btype.as_str(), "MATERIAL" | "GLASS-TYPE" | "NAME-FRAME" | "GAP" | "LAYERS" | "DAY-SCHEDULE-PD" | "SPACE-CONDITIONS"))
            .collect();
        let mut cands: Vec<(usize, usize, String)> = vec![];
        for b in &blocks {
            for i in b.start + 1..b.end {
                for (t, (s0, e0)) in crate::diskfault::numeric_spans(lines[i]).iter().enumerate() {
                    if let Ok(x) = lines[i][*s0..*e0].parse::<f64>() {
                        if x > 0.0 {
                            cands.push((i, t, format!("{}", ((x * 0.8) * 1000.0).round() / 1000.0)));
                        }
                    }
                }
            }
        }
        // prefer definitions the project itself owns and uses: MATERIAL / GAP blocks first
        let n = if thorough { 6 } else { 2 };
        for _ in 0..n {
            if cands.is_empty() {
                break;
            }
            let (line, tok, val) = cands[rng.below(cands.len())].clone();
            variant_ops.push(json!({"op":"convert_text","file":f.rel,"edit":{"kind":"NumOor","line":line,"tok":tok,"val":val}}));
        }
        // every numeric property of the project's own MATERIAL blocks (few per project)
        for b in blocks.iter().filter(|b| b.btype == "MATERIAL").take(if thorough { 40 } else { 6 }) {
            for i in b.start + 1..b.end {
                if let Some((s0, e0)) = crate::diskfault::numeric_spans(lines[i]).first() {
                    if let Ok(x) = lines[i][*s0..*e0].parse::<f64>() {
                        if x > 0.0 && lines[i].contains("CONDUCTIVITY") {
                            variant_ops.push(json!({"op":"convert_text","file":f.rel,"edit":{"kind":"NumOor","line":i,"tok":0,"val":format!("{}", ((x * 0.8) * 10000.0).round() / 10000.0)}}));
                        }
                    }
                }
            }
        }
    }
    // damaged side files converted end to end: the outcome must not depend on the process
    let side = corpus::load(&[FileKind::Kyg, FileKind::Tbl]);
    let mut damaged_ops: Vec<Value> = vec![];
    for f in &side {
        let mut vs: Vec<_> = crate::diskfault::enumerate_c19(f, false)
            .into_iter()
            .filter(|v| matches!(v.edit, crate::diskfault::Edit::DelLine { .. } | crate::diskfault::Edit::DupLine { .. }))
            .collect();
        rng.shuffle(&mut vs);
        for v in vs.into_iter().take(if thorough { 200 } else { 25 }) {
            damaged_ops.push(json!({"op":"convert_dir_damaged","file":f.rel,"edit":v.edit}));
        }
    }
    // project texts the converter REJECTS (a definition removed, a reference renamed): a failed
    // conversion must leave nothing behind for the next one on the same thread
    let mut rejected_ops: Vec<Value> = vec![];
    for f in files.iter().filter(|f| f.kind == FileKind::Ctehexml) {
        let mut vs: Vec<_> = crate::diskfault::enumerate_c02(f)
            .into_iter()
            .filter(|v| matches!(v.edit, crate::diskfault::Edit::DefRemoved { .. } | crate::diskfault::Edit::DefRenamed { .. } | crate::diskfault::Edit::RefRenamed { .. }))
            .collect();
        rng.shuffle(&mut vs);
        for v in vs.into_iter().take(if thorough { 12 } else { 3 }) {
            rejected_ops.push(json!({"op":"convert_text","file":f.rel,"edit":v.edit}));
        }
    }
    conv_ops.extend(variant_ops.iter().cloned());
    let ind_ops = indicator_pool(thorough, &mut rng);
    let mut all_ops: Vec<Value> = conv_ops.clone();
    all_ops.extend(ind_ops.clone());
    all_ops.extend(damaged_ops.iter().cloned());
    all_ops.extend(rejected_ops.iter().cloned());

    // ---- isolated references (fresh process, hash seed 0, one thread, nothing before)
    let refs = compute_refs(&all_ops, &scratch.dir);
    let bad_refs: Vec<String> = refs
        .iter()
        .filter(|(_, (c, _))| c != "ok" && c != "err")
        .map(|(k, (c, _))| format!("{} -> {}", k, c))
        .collect();
    let base_refs = refs.clone();
    let usable = |op: &Value| base_refs.get(&op_key(op)).map(|(c, _)| c == "ok" || c == "err").unwrap_or(false);
    let conv_ops: Vec<Value> = conv_ops.into_iter().filter(|o| usable(o)).collect();
    let ind_ops: Vec<Value> = ind_ops.into_iter().filter(|o| usable(o)).collect();
    eprintln!(
        "[C05] {} conversion ops, {} indicator ops, references computed in {:.1}s ({} references fail by themselves and are left to C19/C14)",
        conv_ops.len(), ind_ops.len(), t0.elapsed().as_secs_f64(), bad_refs.len()
    );

    let mut cases: Vec<Case> = vec![];
    // ---- 1. fresh processes under other hash seeds / clocks
    let h = if thorough { 32 } else { 4 };
    let mut fresh_ops: Vec<Value> = conv_ops.clone();
    fresh_ops.extend(ind_ops.iter().filter(|o| o["edits"].as_array().map(|a| a.is_empty()).unwrap_or(true)).cloned());
    for op in &fresh_ops {
        for k in 0..h {
            let hs = 1 + rng.next_u64() % 1_000_000;
            let ft = if k % 2 == 1 { Some(978_307_200 + rng.next_u64() % 1_500_000_000) } else { None };
            cases.push(Case { mode: "fresh_process", job: single_job(op), env: env_of(hs, ft) });
        }
    }
    let damaged_ops: Vec<Value> = damaged_ops.into_iter().filter(|o| usable(o)).collect();
    for op in &damaged_ops {
        for _ in 0..(if thorough { 4 } else { 2 }) {
            cases.push(Case { mode: "fresh_process", job: single_job(op), env: env_of(1 + rng.next_u64() % 1_000_000, None) });
        }
    }
    // (rejected project, then a healthy conversion of the same and of another project) in one process
    let healthy_texts: Vec<Value> = conv_ops.iter().filter(|o| o["op"] == "convert_text" && o["edit"].is_null() && base_refs.get(&op_key(o)).map(|(c, _)| c == "ok").unwrap_or(false)).cloned().collect();
    let mut n_rejected = 0usize;
    for r in rejected_ops.iter().filter(|o| base_refs.get(&op_key(o)).map(|(c, _)| c == "err").unwrap_or(false)) {
        let same = json!({"op":"convert_text","file":r["file"]});
        let mut seqs = vec![vec![r.clone(), same.clone()]];
        if !healthy_texts.is_empty() {
            seqs.push(vec![same.clone(), r.clone(), rng.pick(&healthy_texts).clone(), same.clone()]);
        }
        for ops in seqs {
            cases.push(Case {
                mode: "history",
                job: json!({"t":"proc","threads":[ops],"sched":{"strategy":"rr","q":1000000},"sched_seed":0}),
                env: env_of(0, None),
            });
            n_rejected += 1;
        }
    }
    // ordered pairs (original project, revised copy) and (revised copy, original) in one process
    for v in variant_ops.iter().filter(|o| usable(o)) {
        let orig = json!({"op":"convert_text","file":v["file"]});
        for pair in [vec![orig.clone(), v.clone()], vec![v.clone(), orig.clone()]] {
            cases.push(Case {
                mode: "history",
                job: json!({"t":"proc","threads":[pair],"sched":{"strategy":"rr","q":1000000},"sched_seed":0}),
                env: env_of(0, None),
            });
        }
    }
    // the same project copied elsewhere under another directory name is the same project
    for op in conv_ops.iter().filter(|o| o["op"] == "convert_dir") {
        for name in ["copia de trabajo", "otro_nombre"].iter().take(if thorough { 2 } else { 1 }) {
            let mut c = op.clone();
            c["op"] = json!("convert_dir_copy");
            c["copy_name"] = json!(name);
            cases.push(Case { mode: "fresh_process", job: single_job(&c), env: env_of(1 + rng.next_u64() % 1000, None) });
        }
        // ... and so is a copy that also holds a later-sorting working copy with other content,
        // whichever of the two files was created first
        for order in ["created_first", "created_last"] {
            let mut c = op.clone();
            c["op"] = json!("convert_dir_copy");
            c["copy_name"] = json!("con copia de trabajo");
            c["second_project"] = json!(order);
            cases.push(Case { mode: "fresh_process", job: single_job(&c), env: env_of(1 + rng.next_u64() % 1000, None) });
        }
    }
    let n_fresh = cases.len();
    // ---- 2. histories on one thread
    let n_hist = if thorough { 3000 } else { 150 };
    for _ in 0..n_hist {
        let n = rng.range(2, 8);
        let ops: Vec<Value> = (0..n)
            .map(|_| if rng.chance(1, 4) { rng.pick(&conv_ops).clone() } else { rng.pick(&ind_ops).clone() })
            .collect();
        cases.push(Case {
            mode: "history",
            job: json!({"t":"proc","threads":[ops],"sched":{"strategy":"rr","q":1000000},"sched_seed":0}),
            env: env_of(rng.next_u64() % 1000, None),
        });
    }
    // ordered pairs (A before B): quick = pairs of variants of the same base, thorough = all
    let mut n_pairs = 0usize;
    for (i, a) in ind_ops.iter().enumerate() {
        for (j, b) in ind_ops.iter().enumerate() {
            if i == j {
                continue;
            }
            // thorough: every ordered pair of variants of the same base + a seeded tenth of the
            // cross-base pairs (all 7*10^4 pairs cost about two hours of fresh processes)
            let same_base = a["base"] == b["base"];
            if (thorough && (same_base || rng.chance(1, 10))) || (same_base && rng.chance(1, 3)) {
                cases.push(Case {
                    mode: "history",
                    job: json!({"t":"proc","threads":[[a, b]],"sched":{"strategy":"rr","q":1000000},"sched_seed":0}),
                    env: env_of(0, None),
                });
                n_pairs += 1;
            }
        }
    }
    // editor sessions: every prefix of a session is recomputed in order in one process and
    // must equal the same model computed alone in a fresh process
    let n_sessions = if thorough { 1500 } else { 120 };
    let mut session_ops: Vec<Value> = vec![];
    let mut sessions: Vec<Vec<MEdit>> = modelfault::minimal_sessions().into_iter().map(|(_, o)| o).filter(|o| !o.is_empty()).collect();
    for _ in 0..n_sessions {
        sessions.push(modelfault::editor_session(&mut rng));
    }
    let mut session_cases: Vec<Vec<Value>> = vec![];
    for ops in &sessions {
        let chain: Vec<Value> = (1..=ops.len())
            .map(|k| json!({"op":"indicators","base":"empty","edits":ops[..k],"require_all":false}))
            .collect();
        session_ops.extend(chain.iter().cloned());
        session_cases.push(chain);
    }
    let session_refs = compute_refs(&session_ops, &scratch.dir);
    let mut refs = refs;
    refs.extend(session_refs);
    let n_session_cases = session_cases.len();
    for chain in session_cases {
        // only chains whose every step has a usable isolated reference
        if chain.iter().all(|o| refs.get(&op_key(o)).map(|(c, _)| c == "ok" || c == "err").unwrap_or(false)) {
            cases.push(Case {
                mode: "history",
                job: json!({"t":"proc","threads":[chain],"sched":{"strategy":"rr","q":1000000},"sched_seed":0}),
                env: env_of(0, None),
            });
        }
    }
    let n_history_cases = cases.len() - n_fresh;
    // ---- 3. schedules: real threads under the baton scheduler
    let n_sched = if thorough { 12_000 } else { 400 };
    let mut strategies_used: BTreeMap<String, u64> = BTreeMap::new();
    for _ in 0..n_sched {
        let nthreads = *rng.pick(&[2usize, 2, 3, 3, 4, 4, 6, 8, 12, 16]);
        let threads: Vec<Vec<Value>> = (0..nthreads)
            .map(|_| {
                let n = rng.range(1, if nthreads > 6 { 2 } else { 3 });
                (0..n)
                    .map(|_| if rng.chance(1, 5) { rng.pick(&conv_ops).clone() } else { rng.pick(&ind_ops).clone() })
                    .collect()
            })
            .collect();
        let sched = match rng.below(4) {
            0 => json!({"strategy":"random"}),
            1 => json!({"strategy":"pct","d":rng.range(1,3),"est":rng.range(20,400)}),
            2 => json!({"strategy":"rr","q":rng.range(0,6)}),
            _ => json!({"strategy":"random"}),
        };
        *strategies_used.entry(sched["strategy"].as_str().unwrap_or("").to_string()).or_insert(0) += 1;
        cases.push(Case {
            mode: "schedule",
            job: json!({"t":"proc","threads":threads,"sched":sched,"sched_seed":rng.next_u64() % 1_000_000_007,"fuel": 2_000_000_000i64}),
            env: env_of(rng.next_u64() % 1000, None),
        });
    }
    // two (or three) DIFFERENT projects converted at the same moment, one conversion per thread:
    // whatever one conversion keeps in process-wide state between its stages meets the other's
    let text_ops: Vec<Value> = conv_ops.iter().filter(|o| o["op"] == "convert_text" && o["edit"].is_null()).cloned().collect();
    let special: Vec<Value> = text_ops.iter().filter(|o| o["file"].as_str().map(|f| crate::projgen::seed_of(f).map(|s| s >= crate::projgen::SELF_CONTAINED_FROM).unwrap_or(false)).unwrap_or(false)).cloned().collect();
    let n_conv_sched = if thorough { 3_000 } else { 160 };
    for k in 0..n_conv_sched {
        if text_ops.len() < 2 {
            break;
        }
        let nthreads = *rng.pick(&[2usize, 2, 2, 3]);
        let mut threads: Vec<Vec<Value>> = (0..nthreads).map(|_| vec![rng.pick(&text_ops).clone()]).collect();
        // half of the cases pair a project without profile blocks with one that has them
        if k % 2 == 0 && !special.is_empty() {
            threads[0] = vec![rng.pick(&special).clone()];
        }
        let sched = match rng.below(3) {
            0 => json!({"strategy":"random"}),
            1 => json!({"strategy":"pct","d":rng.range(1,3),"est":rng.range(10,60)}),
            _ => json!({"strategy":"rr","q":rng.range(0,3)}),
        };
        *strategies_used.entry(sched["strategy"].as_str().unwrap_or("").to_string()).or_insert(0) += 1;
        cases.push(Case {
            mode: "schedule",
            job: json!({"t":"proc","threads":threads,"sched":sched,"sched_seed":rng.next_u64() % 1_000_000_007,"fuel": 2_000_000_000i64}),
            env: env_of(rng.next_u64() % 1000, None),
        });
    }
    // ---- fixed checks: unrelated definitions keep every existing id; shipped reference models
    let mut n_edited = 0usize;
    for f in &files {
        let lines = crate::diskfault::split_lines(&f.text);
        let nblocks = crate::diskfault::scan_blocks(&lines)
            .iter()
            .filter(|b| crate::engines::procsim::UNRELATED_TYPES.contains(&b.btype.as_str()))
            .count();
        if nblocks == 0 || !usable(&json!({"op":"convert_text","file":f.rel})) {
            continue;
        }
        // one block of every eligible type at least; thorough: every block of the .ctehexml files
        let ks: Vec<usize> = if thorough && f.kind == FileKind::Ctehexml && !f.rel.starts_with("gen/") {
            (0..nblocks).collect()
        } else {
            let per = if thorough { 24 } else { 3 };
            (0..per).map(|_| rng.below(nblocks)).collect()
        };
        for k in ks {
            cases.push(Case {
                mode: "fixed",
                job: single_job(&json!({"op":"convert_edited","file":f.rel,"def":k})),
                env: env_of(0, None),
            });
            n_edited += 1;
        }
        // two adjacent unrelated definitions swapped; an unreferenced definition renamed
        let n_more = if thorough { 12 } else { 2 };
        for _ in 0..n_more {
            for mode in ["swap", "rename_unused", "near:lower", "near:upper", "near:blank2", "near:trail", "revalued_copy", "revalued_copy", "revalued_copy"] {
                cases.push(Case {
                    mode: "fixed",
                    job: single_job(&json!({"op":"convert_edited","file":f.rel,"def":rng.below(100_000),"mode":mode})),
                    env: env_of(0, None),
                });
                n_edited += 1;
            }
        }
    }
    for (p, m) in corpus::reference_pairs() {
        cases.push(Case { mode: "fixed", job: single_job(&json!({"op":"refpair","project":p,"model":m})), env: env_of(0, None) });
    }
    eprintln!(
        "[C05] cases: {} fresh-process, {} history ({} ordered pairs), {} schedule, {} unrelated-definition, {} reference pairs",
        n_fresh, n_history_cases, n_pairs, n_sched, n_edited, corpus::reference_pairs().len()
    );
    let jobs: Vec<(Value, Vec<(String, String)>)> = cases.iter().map(|c| (c.job.clone(), c.env.clone())).collect();
    let outs = run_proc_jobs(&jobs, &scratch.dir);
    eprintln!("[C05] executed in {:.1}s", t0.elapsed().as_secs_f64());

    // ---- judge
    let mut groups: BTreeMap<String, (Value, usize, usize, String, usize)> = BTreeMap::new();
    let mut interleavings: HashSet<String> = HashSet::new();
    let mut nontrivial_sched: HashSet<String> = HashSet::new();
    let mut pairs_seen: HashSet<String> = HashSet::new();
    let mut fresh_seen: HashSet<String> = HashSet::new();
    let mut steps: u64 = 0;
    let mut ops_executed: u64 = 0;
    let mut fired: BTreeMap<String, u64> = BTreeMap::new();
    let mut freeruns = 0u64;
    let mut samples = vec![];
    let mut harness_errors: Vec<String> = vec![];
    for (i, (c, o)) in cases.iter().zip(outs.iter()).enumerate() {
        if let Outcome::Result(v) = o {
            if v["class"] == "harness_error" {
                harness_errors.push(v["detail"].as_str().unwrap_or("").to_string());
                continue;
            }
            let rep = &v["report"];
            steps += rep["decisions"].as_u64().unwrap_or(0);
            ops_executed += v["ops"].as_array().map(|a| a.iter().map(|t| t.as_array().map(|x| x.len()).unwrap_or(0)).sum::<usize>()).unwrap_or(0) as u64;
            *fired.entry("sched.preempt".into()).or_insert(0) += rep["switches"].as_u64().unwrap_or(0);
            *fired.entry("sched.preempt_inside_critical_section".into()).or_insert(0) += rep["switches_in_critical_section"].as_u64().unwrap_or(0);
            *fired.entry("sched.block".into()).or_insert(0) += rep["blocked_on_lock"].as_u64().unwrap_or(0);
            if rep["freerun"] == true {
                freeruns += 1;
                *fired.entry("sched.freerun".into()).or_insert(0) += 1;
            }
            match c.mode {
                "schedule" => {
                    let ih = rep["interleaving_hash"].as_str().unwrap_or("").to_string();
                    interleavings.insert(ih.clone());
                    if rep["switches_in_critical_section"].as_u64().unwrap_or(0) > 0 {
                        nontrivial_sched.insert(ih);
                    }
                }
                "history" => {
                    pairs_seen.insert(serde_json::to_string(&c.job["threads"]).unwrap());
                }
                "fresh_process" => {
                    fresh_seen.insert(format!("{}|{:?}", serde_json::to_string(&c.job["threads"]).unwrap(), c.env));
                    *fired.entry("proc.restart".into()).or_insert(0) += 1;
                    *fired.entry("proc.hashseed".into()).or_insert(0) += 1;
                    if c.env.len() > 1 {
                        *fired.entry("proc.clock".into()).or_insert(0) += 1;
                    }
                }
                _ => {}
            }
        }
        if c.env.iter().any(|(k, v)| k == "VERIF_MONO_STEP_NS" && v != "0") {
            *fired.entry("proc.slow_clock".into()).or_insert(0) += 1;
        }
        for (key, detail, _) in judge(c, o, &refs) {
            let size = ops_of(&c.job).len() + 10 * c.job["threads"].as_array().map(|a| a.len()).unwrap_or(1);
            let e = groups.entry(key.to_string()).or_insert_with(|| (key.clone(), 0, i, detail.clone(), size));
            e.1 += 1;
            if size < e.4 {
                e.2 = i;
                e.3 = detail;
                e.4 = size;
            }
        }
        if samples.len() < 6 && (i % 997 == 5 || (c.mode == "schedule" && samples.len() < 2)) {
            samples.push(json!({"mode": c.mode, "job": c.job, "env": c.env, "report": match o { Outcome::Result(v) => v["report"].clone(), _ => json!("process died") }}));
        }
    }
    // ---- minimise and report
    let findings = report::load_findings();
    let mut violations: Vec<Violation> = vec![];
    for (_, (key, count, idx, detail, _)) in groups {
        let case = &cases[idx];
        let known = findings.iter().any(|f| report::matches(f, "C05", &key));
        let (mc, attempts) = if known || case.mode == "fixed" || case.mode == "fresh_process" {
            (case.clone(), 0)
        } else {
            minimise(case, &key, &refs, &scratch.dir)
        };
        let envmap: BTreeMap<String, String> = mc.env.iter().cloned().collect();
        violations.push(Violation {
            key,
            count,
            replay: json!({"engine":"procsim","mode": mc.mode, "job": mc.job, "env": envmap, "minimisation_attempts": attempts,
                "original_job_ops": ops_of(&case.job).len(), "minimised_job_ops": ops_of(&mc.job).len()}),
            detail,
        });
    }
    let rep = Report {
        property: "C05".into(),
        tier: tier.into(),
        seed,
        level: "exploration".into(),
        violations,
        harness_errors: harness_errors.clone(),
    };
    let verdict = rep.conclude();
    let wall = t0.elapsed().as_secs_f64();
    let distinct = nontrivial_sched.len() + pairs_seen.len() + fresh_seen.len();
    let mut extra = Map::new();
    extra.insert("cases_fresh_process".into(), json!(n_fresh));
    extra.insert("cases_history".into(), json!(n_history_cases));
    extra.insert("ordered_pairs".into(), json!(n_pairs));
    extra.insert("editor_session_chains".into(), json!(n_session_cases));
    extra.insert("cases_schedule".into(), json!(n_sched + n_conv_sched));
    extra.insert("cases_schedule_concurrent_conversions_of_different_projects".into(), json!(n_conv_sched));
    extra.insert("cases_unrelated_definition".into(), json!(n_edited));
    extra.insert("reference_pairs".into(), json!(corpus::reference_pairs().len()));
    extra.insert("histories_after_a_rejected_project".into(), json!(n_rejected));
    extra.insert("scheduler_steps".into(), json!(steps));
    extra.insert("ops_executed".into(), json!(ops_executed));
    extra.insert("distinct_interleavings".into(), json!(interleavings.len()));
    extra.insert("distinct_interleavings_with_switch_inside_critical_section".into(), json!(nontrivial_sched.len()));
    extra.insert("strategies".into(), json!(strategies_used));
    extra.insert("fault_kinds_fired".into(), json!(fired));
    extra.insert("uncontrolled_free_runs".into(), json!(freeruns));
    extra.insert("references_that_fail_by_themselves".into(), json!(bad_refs));
    extra.insert("known_findings_hit".into(), json!(verdict.known_hit));
    extra.insert("seeds_per_hour".into(), json!((cases.len() as f64 / wall.max(0.001) * 3600.0) as u64));
    extra.insert("simulated_time".into(), json!("n/a - no timers in the system; scheduler steps reported instead; the wall-clock seam is varied in fresh-process cases"));
    extra.insert("components".into(), report::components());
    extra.insert("determinism_selftest".into(), report::selftest_summary());
    extra.insert("miri_tier".into(), json!("run by bin/check C05 thorough (see miri section of the log)"));
    Evidence {
        property: "C05".into(),
        tier: tier.into(),
        seed,
        level: "exploration".into(),
        evaluations: cases.len() as u64,
        distinct_nontrivial: distinct as u64,
        rule: "operations: convert a shipped project directory (with/without extra files; in place, from a copy elsewhere, from a copy that also holds a second project file created before or after it), convert a shipped or generated .ctehexml/.cte text, indicators of a pool model (shipped models + variants differing in one respect: climate zone, a moved shade, a set-back, a conductivity, all names, all ids). Each operation's result hash must equal the isolated reference (alone, first, fresh process, hash seed 0). Simulations: fresh processes under other hash seeds, realtime clocks, a monotonic clock that steps 1 ms / 2 s / 1 h per read, 1 / 2 / 5 / all CPUs and other environment variables; seeded histories of 2..8 operations and ordered pairs on one thread; 2..16 real threads under the baton scheduler (uniform random / PCT / round-robin), scheduling points at every hook point and table-lock acquisition; plus: adding a copy of any by-name definition under a new name (also a near-identical name, also with other values), swapping two unrelated definitions or renaming an unused one must keep every existing id, and the 6 shipped reference pairs must convert to the shipped models (as JSON values). Non-trivial and distinct = distinct interleavings (decision-trace hash) with a context switch inside a critical section + distinct operation sequences on one thread + distinct (operation, hash seed, clock) fresh-process cases".into(),
        samples,
        exhaustive: false,
        extra,
        assumptions: vec![
            "indicators are compared as JSON values (the per-orientation detail map is a HashMap; the property says same values)".into(),
            "scheduling is controlled at the hooked points only; unsynchronised state without a hook point is left to the Miri tier".into(),
            "ASLR is not owned by the simulator".into(),
        ],
        wall_s: wall,
        violations: verdict.new_violations as u64,
    }
    .write();
    eprintln!(
        "[C05] {} cases, {} scheduler steps, {} distinct interleavings ({} with a switch inside a critical section), {} new violations, {} known, {:.1}s",
        cases.len(), steps, interleavings.len(), nontrivial_sched.len(), verdict.new_violations, verdict.known_hit.len(), wall
    );
    let _ = BTreeSet::<u8>::new();
    if !harness_errors.is_empty() {
        return 2;
    }
    if verdict.new_violations > 0 {
        1
    } else {
        0
    }
}
