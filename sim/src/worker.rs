//! Worker side: executes job descriptors against the real code, one at a time, and records
//! S(tart)/R(esult)/X(tainted)/T(imeout) lines so that the orchestrator always knows which
//! job was in flight when the process ended.

use serde_json::Value;
use std::io::Write;
use std::path::PathBuf;
use std::sync::atomic::{AtomicU64, AtomicUsize, Ordering};
use std::sync::{Arc, Mutex};
use std::time::{Duration, Instant};

pub struct WorkerCtx {
    pub scratch: PathBuf,
    pub engine: String,
}

pub struct JobOutput {
    pub result: Value,
    /// the process must not be reused after this job (e.g. a global was poisoned)
    pub tainted: bool,
}

static CUR_JOB: AtomicUsize = AtomicUsize::new(usize::MAX);
static CUR_START_MS: AtomicU64 = AtomicU64::new(0);
static CUR_START_CPU_MS: AtomicU64 = AtomicU64::new(0);

/// CPU time used by this process so far (all threads), in ms.
fn cpu_ms() -> u64 {
    let mut ts = libc::timespec { tv_sec: 0, tv_nsec: 0 };
    unsafe {
        libc::clock_gettime(libc::CLOCK_PROCESS_CPUTIME_ID, &mut ts);
    }
    ts.tv_sec as u64 * 1000 + ts.tv_nsec as u64 / 1_000_000
}

pub fn worker_main(args: &[String]) -> i32 {
    let mut engine = String::new();
    let mut jobs = PathBuf::new();
    let mut out = PathBuf::new();
    let mut scratch = PathBuf::new();
    let mut timeout_ms: u64 = 60_000;
    let mut i = 0;
    while i < args.len() {
        match args[i].as_str() {
            "--engine" => {
                engine = args[i + 1].clone();
                i += 1
            }
            "--jobs" => {
                jobs = PathBuf::from(&args[i + 1]);
                i += 1
            }
            "--out" => {
                out = PathBuf::from(&args[i + 1]);
                i += 1
            }
            "--scratch" => {
                scratch = PathBuf::from(&args[i + 1]);
                i += 1
            }
            "--timeout-ms" => {
                timeout_ms = args[i + 1].parse().unwrap_or(60_000);
                i += 1
            }
            _ => {}
        }
        i += 1;
    }
    crate::panics::install_hook();
    install_logger();
    let jobs_txt = std::fs::read_to_string(&jobs).expect("jobs file");
    let outf = Arc::new(Mutex::new(
        std::fs::OpenOptions::new()
            .create(true)
            .append(true)
            .open(&out)
            .expect("out file"),
    ));
    let t0 = Instant::now();
    // watchdog (wall clock is used for hang detection only, never for a decision that
    // influences what the system under test does)
    {
        let outf = outf.clone();
        std::thread::spawn(move || loop {
            std::thread::sleep(Duration::from_millis(50));
            let cur = CUR_JOB.load(Ordering::SeqCst);
            if cur == usize::MAX {
                continue;
            }
            let started = CUR_START_MS.load(Ordering::SeqCst);
            let now = t0.elapsed().as_millis() as u64;
            // the limit is on the CPU time the process has used since the job started: a
            // non-terminating computation burns CPU, whereas an overloaded machine only stretches
            // the wall clock (a full C19 campaign next to six compilations produced ten spurious
            // "hangs" with a wall-clock limit). The wall clock is only a backstop at 8x the limit
            // for a job that is blocked without using CPU.
            let cpu_used = cpu_ms().saturating_sub(CUR_START_CPU_MS.load(Ordering::SeqCst));
            let wall_used = now.saturating_sub(started);
            if (cpu_used > timeout_ms || wall_used > timeout_ms.saturating_mul(8)) && CUR_JOB.load(Ordering::SeqCst) == cur {
                if let Ok(mut f) = outf.lock() {
                    let _ = writeln!(f, "T {}", cur);
                    let _ = f.flush();
                }
                unsafe { libc::_exit(97) };
            }
        });
    }
    let mut ctx = WorkerCtx {
        scratch,
        engine: engine.clone(),
    };
    crate::engines::worker_init(&mut ctx);
    for line in jobs_txt.lines() {
        let (idx_s, js) = match line.split_once(' ') {
            Some(p) => p,
            None => continue,
        };
        let idx: usize = idx_s.parse().expect("job index");
        let job: Value = serde_json::from_str(js).expect("job json");
        {
            let mut f = outf.lock().unwrap();
            writeln!(f, "S {}", idx).unwrap();
            f.flush().unwrap();
        }
        // proc.loglevel: the consumer process may or may not have a logger installed, at any
        // level; the level is a pure function of the job index (log arguments are only
        // evaluated when their level is enabled)
        log::set_max_level(match std::env::var("VERIF_LOG_LEVEL").ok().as_deref() {
            Some("off") => log::LevelFilter::Off,
            Some("error") => log::LevelFilter::Error,
            Some("warn") => log::LevelFilter::Warn,
            Some("trace") => log::LevelFilter::Trace,
            _ => match idx % 4 {
                0 => log::LevelFilter::Off,
                1 => log::LevelFilter::Warn,
                _ => log::LevelFilter::Trace,
            },
        });
        CUR_START_CPU_MS.store(cpu_ms(), Ordering::SeqCst);
        CUR_START_MS.store(t0.elapsed().as_millis() as u64, Ordering::SeqCst);
        CUR_JOB.store(idx, Ordering::SeqCst);
        let o = crate::engines::run_job(&mut ctx, &job);
        CUR_JOB.store(usize::MAX, Ordering::SeqCst);
        {
            let mut f = outf.lock().unwrap();
            writeln!(f, "R {} {}", idx, serde_json::to_string(&o.result).unwrap()).unwrap();
            if o.tainted {
                writeln!(f, "X {}", idx).unwrap();
            }
            f.flush().unwrap();
        }
        if o.tainted {
            // leave without running destructors of parked threads etc.
            unsafe { libc::_exit(0) };
        }
    }
    0
}

/// A logger that formats every enabled record (so Display / Debug code of the arguments runs)
/// and discards the text.
struct SinkLogger;

impl log::Log for SinkLogger {
    fn enabled(&self, _m: &log::Metadata) -> bool {
        true
    }
    fn log(&self, record: &log::Record) {
        use std::fmt::Write as _;
        let mut s = String::new();
        let _ = write!(s, "{}", record.args());
        std::hint::black_box(s.len());
    }
    fn flush(&self) {}
}

static SINK: SinkLogger = SinkLogger;

fn install_logger() {
    let _ = log::set_logger(&SINK);
    log::set_max_level(log::LevelFilter::Off);
}
