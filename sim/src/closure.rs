//! Reference model for referential closure (C02) and the strict sanity predicate (C14-I3),
//! both evaluated on the JSON value of a model so that they are independent of the typed
//! accessors under test.

use serde_json::Value;
use std::collections::{BTreeMap, BTreeSet};

pub const NIL: &str = "00000000-0000-0000-0000-000000000000";

pub const COLLECTIONS: &[(&str, &[&str])] = &[
    ("spaces", &["spaces"]),
    ("walls", &["walls"]),
    ("windows", &["windows"]),
    ("thermal_bridges", &["thermal_bridges"]),
    ("shades", &["shades"]),
    ("wallcons", &["cons", "wallcons"]),
    ("wincons", &["cons", "wincons"]),
    ("materials", &["cons", "materials"]),
    ("glasses", &["cons", "glasses"]),
    ("frames", &["cons", "frames"]),
    ("year", &["schedules", "year"]),
    ("week", &["schedules", "week"]),
    ("day", &["schedules", "day"]),
    ("loads", &["loads"]),
    ("thermostats", &["thermostats"]),
];

pub fn collection<'a>(m: &'a Value, path: &[&str]) -> &'a [Value] {
    let mut cur = m;
    for p in path {
        match cur.get(*p) {
            Some(v) => cur = v,
            None => return &[],
        }
    }
    cur.as_array().map(|a| a.as_slice()).unwrap_or(&[])
}

pub fn ids_of(m: &Value, name: &str) -> BTreeMap<String, usize> {
    let path = COLLECTIONS.iter().find(|c| c.0 == name).unwrap().1;
    let mut out = BTreeMap::new();
    for e in collection(m, path) {
        if let Some(id) = e.get("id").and_then(|v| v.as_str()) {
            *out.entry(id.to_string()).or_insert(0) += 1;
        }
    }
    out
}

/// One broken link: (collection of the referring element, its id, link name, target id)
#[derive(Clone, Debug, PartialEq, Eq, PartialOrd, Ord)]
pub struct Broken {
    pub coll: String,
    pub id: String,
    pub link: String,
    pub target: String,
    pub why: String,
}

fn check_link(
    out: &mut Vec<Broken>,
    coll: &str,
    elem: &Value,
    link: &str,
    target: Option<&Value>,
    optional: bool,
    targets: &BTreeMap<String, usize>,
) {
    let id = elem
        .get("id")
        .and_then(|v| v.as_str())
        .unwrap_or("?")
        .to_string();
    match target {
        None | Some(Value::Null) => {
            if !optional {
                out.push(Broken {
                    coll: coll.into(),
                    id,
                    link: link.into(),
                    target: "<missing>".into(),
                    why: "mandatory link absent".into(),
                });
            }
        }
        Some(Value::String(t)) => {
            if t == NIL {
                out.push(Broken {
                    coll: coll.into(),
                    id,
                    link: link.into(),
                    target: t.clone(),
                    why: "nil id".into(),
                });
            } else {
                match targets.get(t) {
                    Some(1) => {}
                    Some(_) => out.push(Broken {
                        coll: coll.into(),
                        id,
                        link: link.into(),
                        target: t.clone(),
                        why: "target id not unique".into(),
                    }),
                    None => out.push(Broken {
                        coll: coll.into(),
                        id,
                        link: link.into(),
                        target: t.clone(),
                        why: "target absent".into(),
                    }),
                }
            }
        }
        Some(other) => out.push(Broken {
            coll: coll.into(),
            id,
            link: link.into(),
            target: other.to_string(),
            why: "link is not an id".into(),
        }),
    }
}

/// All violations of referential closure of a model given as JSON value.
pub fn closure_violations(m: &Value) -> Vec<Broken> {
    let mut out = vec![];
    let mut idx: BTreeMap<&str, BTreeMap<String, usize>> = BTreeMap::new();
    for (name, _) in COLLECTIONS {
        let ids = ids_of(m, name);
        for (id, n) in &ids {
            if *n > 1 {
                out.push(Broken {
                    coll: name.to_string(),
                    id: id.clone(),
                    link: "id".into(),
                    target: id.clone(),
                    why: format!("id occurs {} times in collection", n),
                });
            }
        }
        idx.insert(name, ids);
    }
    for w in collection(m, &["walls"]) {
        check_link(&mut out, "walls", w, "space", w.get("space"), false, &idx["spaces"]);
        check_link(&mut out, "walls", w, "cons", w.get("cons"), false, &idx["wallcons"]);
        check_link(&mut out, "walls", w, "next_to", w.get("next_to"), true, &idx["spaces"]);
    }
    for w in collection(m, &["windows"]) {
        check_link(&mut out, "windows", w, "wall", w.get("wall"), false, &idx["walls"]);
        check_link(&mut out, "windows", w, "cons", w.get("cons"), false, &idx["wincons"]);
    }
    for c in collection(m, &["cons", "wallcons"]) {
        if let Some(layers) = c.get("layers").and_then(|l| l.as_array()) {
            for l in layers {
                // a layer has no id of its own: report with the construction's id
                let mut fake = l.clone();
                if let Some(o) = fake.as_object_mut() {
                    o.insert("id".into(), c.get("id").cloned().unwrap_or(Value::Null));
                }
                check_link(&mut out, "wallcons", &fake, "layer.material", l.get("material"), false, &idx["materials"]);
            }
        }
    }
    for c in collection(m, &["cons", "wincons"]) {
        check_link(&mut out, "wincons", c, "glass", c.get("glass"), false, &idx["glasses"]);
        check_link(&mut out, "wincons", c, "frame", c.get("frame"), false, &idx["frames"]);
    }
    for s in collection(m, &["spaces"]) {
        check_link(&mut out, "spaces", s, "loads", s.get("loads"), true, &idx["loads"]);
        check_link(&mut out, "spaces", s, "thermostat", s.get("thermostat"), true, &idx["thermostats"]);
    }
    for l in collection(m, &["loads"]) {
        for k in ["people_schedule", "equipment_schedule", "lighting_schedule"] {
            check_link(&mut out, "loads", l, k, l.get(k), true, &idx["year"]);
        }
    }
    for t in collection(m, &["thermostats"]) {
        for k in ["temp_max", "temp_min"] {
            check_link(&mut out, "thermostats", t, k, t.get(k), true, &idx["year"]);
        }
    }
    for y in collection(m, &["schedules", "year"]) {
        if let Some(vals) = y.get("values").and_then(|v| v.as_array()) {
            for v in vals {
                check_link(&mut out, "year", y, "week", v.get(0), false, &idx["week"]);
            }
        }
    }
    for w in collection(m, &["schedules", "week"]) {
        if let Some(vals) = w.get("values").and_then(|v| v.as_array()) {
            for v in vals {
                check_link(&mut out, "week", w, "day", v.get(0), false, &idx["day"]);
            }
        }
    }
    out
}

/// The broken links the model checker is specified to report (C15): multiset of
/// (element id) for wall.space / wall.cons / wall.next_to / window.wall / window.cons whose
/// target is absent from the target collection, plus bridges of negative length.
pub fn expected_checker_warnings(m: &Value) -> Vec<(String, String)> {
    let spaces: BTreeSet<String> = ids_of(m, "spaces").into_keys().collect();
    let walls: BTreeSet<String> = ids_of(m, "walls").into_keys().collect();
    let wallcons: BTreeSet<String> = ids_of(m, "wallcons").into_keys().collect();
    let wincons: BTreeSet<String> = ids_of(m, "wincons").into_keys().collect();
    let mut out = vec![];
    let sid = |e: &Value| e.get("id").and_then(|v| v.as_str()).unwrap_or("?").to_string();
    let get = |e: &Value, k: &str| e.get(k).and_then(|v| v.as_str()).map(|s| s.to_string());
    for w in collection(m, &["walls"]) {
        if let Some(t) = get(w, "space") {
            if !spaces.contains(&t) {
                out.push((sid(w), "wall.space".to_string()));
            }
        }
        if let Some(t) = get(w, "cons") {
            if !wallcons.contains(&t) {
                out.push((sid(w), "wall.cons".to_string()));
            }
        }
        if let Some(t) = get(w, "next_to") {
            if !spaces.contains(&t) {
                out.push((sid(w), "wall.next_to".to_string()));
            }
        }
    }
    for w in collection(m, &["windows"]) {
        if let Some(t) = get(w, "wall") {
            if !walls.contains(&t) {
                out.push((sid(w), "window.wall".to_string()));
            }
        }
        if let Some(t) = get(w, "cons") {
            if !wincons.contains(&t) {
                out.push((sid(w), "window.cons".to_string()));
            }
        }
    }
    for tb in collection(m, &["thermal_bridges"]) {
        if let Some(l) = tb.get("l").and_then(|v| v.as_f64()) {
            if l < 0.0 {
                out.push((sid(tb), "bridge.l<0".to_string()));
            }
        }
    }
    out.sort();
    out
}

/// Walk every number of a JSON value; returns paths of non-finite ones (serde_json maps
/// NaN/inf to null, so callers that need that use the typed visitor instead).
pub fn walk_numbers(v: &Value, path: &mut String, f: &mut dyn FnMut(&str, f64)) {
    match v {
        Value::Number(n) => {
            if let Some(x) = n.as_f64() {
                f(path, x)
            }
        }
        Value::Array(a) => {
            for (i, e) in a.iter().enumerate() {
                let l = path.len();
                path.push_str(&format!("/{}", i));
                walk_numbers(e, path, f);
                path.truncate(l);
            }
        }
        Value::Object(o) => {
            for (k, e) in o {
                let l = path.len();
                path.push('/');
                path.push_str(k);
                walk_numbers(e, path, f);
                path.truncate(l);
            }
        }
        _ => {}
    }
}
