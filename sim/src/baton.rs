//! PRNG "baton" scheduler over REAL parked std threads.  All simulated caller threads are
//! real OS threads; all but the baton holder are parked on their own condvar.  At every
//! hook point (repo hook `verif_hooks`) the running thread hands the baton back and the
//! scheduler - PRNG, PCT, round-robin or a replay script - picks the next *enabled* thread.
//! Poisoning, unwinding and thread-locals are therefore the production ones; only the
//! choice of who runs is simulated.

use crate::rng::Rng;
use serde::{Deserialize, Serialize};
use std::cell::RefCell;
use std::collections::{BTreeMap, HashMap};
use std::sync::atomic::{AtomicBool, AtomicI64, Ordering};
use std::sync::{Arc, Condvar, Mutex};
use std::time::Duration;

#[derive(Clone, Debug, Serialize, Deserialize)]
#[serde(tag = "strategy")]
pub enum Strategy {
    #[serde(rename = "random")]
    Random,
    #[serde(rename = "pct")]
    Pct { d: usize, est: usize },
    #[serde(rename = "rr")]
    RoundRobin { q: usize },
    /// decision index -> thread; otherwise keep the current thread if enabled, else lowest enabled
    #[serde(rename = "script")]
    Script { decisions: Vec<(usize, usize)> },
}

#[derive(Clone, Debug, PartialEq)]
enum Pending {
    Start,
    Yield(&'static str),
    Acquire(usize),
}

#[derive(Clone, Debug, PartialEq)]
enum Status {
    NotStarted,
    Running,
    AtPoint(Pending),
    Finished,
}

#[derive(Clone, Debug, Serialize)]
pub struct Decision {
    pub seq: usize,
    pub by: usize,
    pub chosen: usize,
    pub enabled: u32,
    pub at: String,
    pub lock: Option<usize>,
}

struct State {
    threads: Vec<(Status, i32)>,
    locks: HashMap<usize, Option<usize>>,
    lock_nos: HashMap<usize, usize>,
    lock_names: Vec<String>,
    baton: Option<usize>,
    rng: Rng,
    strategy: Strategy,
    prio: Vec<i64>,
    change_points: Vec<usize>,
    rr_left: usize,
    trace: Vec<Decision>,
    freerun: bool,
    last_event: u64,
    deadlock: bool,
    switches_in_cs: usize,
    switches: usize,
    blocked_events: usize,
}

pub struct Sim {
    st: Mutex<State>,
    cvs: Vec<Condvar>,
    main_cv: Condvar,
    fuel: AtomicI64,
    fuel_exhausted: AtomicBool,
}

thread_local! {
    static CUR: RefCell<Option<(Arc<Sim>, usize)>> = const { RefCell::new(None) };
}

pub const FUEL_MSG: &str = "ctesim: fuel exhausted (loop bound exceeded)";

fn hk_acquire(addr: usize, name: &'static str) {
    if std::thread::panicking() {
        return;
    }
    CUR.with(|c| {
        if let Some((sim, me)) = c.borrow().as_ref() {
            sim.reach(*me, Pending::Acquire(addr), name);
        }
    });
}

fn hk_release(addr: usize) {
    CUR.with(|c| {
        if let Some((sim, me)) = c.borrow().as_ref() {
            sim.release(*me, addr);
        }
    });
}

fn hk_point(name: &'static str) {
    if std::thread::panicking() {
        return;
    }
    CUR.with(|c| {
        if let Some((sim, me)) = c.borrow().as_ref() {
            if sim.fuel.fetch_sub(1, Ordering::Relaxed) <= 0 {
                sim.fuel_exhausted.store(true, Ordering::SeqCst);
                // leave the scheduler out of it: the op unwinds like any other failing op
                sim.fuel.store(i64::MAX / 2, Ordering::Relaxed);
                panic!("{}", FUEL_MSG);
            }
            if !name.starts_with("fuel:") {
                sim.reach(*me, Pending::Yield(name), name);
            }
        }
    });
}

pub fn install_hooks() {
    bemodel::verif_hooks::install(bemodel::verif_hooks::Hooks {
        acquire: hk_acquire,
        release: hk_release,
        point: hk_point,
    });
    // the parser crate has its own (point-only) hook table
    hulc::verif_hooks::install(hulc::verif_hooks::Hooks { point: hk_point });
}

impl State {
    fn enabled(&self) -> Vec<usize> {
        self.threads
            .iter()
            .enumerate()
            .filter(|(_, (s, _))| match s {
                Status::AtPoint(Pending::Acquire(a)) => self.locks.get(a).map(|o| o.is_none()).unwrap_or(true),
                Status::AtPoint(_) => true,
                _ => false,
            })
            .map(|(i, _)| i)
            .collect()
    }

    fn pick(&mut self, by: Option<usize>, enabled: &[usize]) -> usize {
        let idx = self.trace.len();
        match &self.strategy {
            Strategy::Random => enabled[self.rng.below(enabled.len())],
            Strategy::Pct { .. } => {
                if self.change_points.contains(&idx) {
                    if let Some(b) = by {
                        let min = self.prio.iter().copied().min().unwrap_or(0);
                        self.prio[b] = min - 1;
                    }
                }
                *enabled.iter().max_by_key(|t| self.prio[**t]).unwrap()
            }
            Strategy::RoundRobin { q } => {
                let q = *q;
                match by {
                    Some(b) if enabled.contains(&b) && self.rr_left > 0 => {
                        self.rr_left -= 1;
                        b
                    }
                    _ => {
                        self.rr_left = q;
                        let start = by.map(|b| b + 1).unwrap_or(0);
                        let n = self.threads.len();
                        (0..n)
                            .map(|k| (start + k) % n)
                            .find(|t| enabled.contains(t))
                            .unwrap_or(enabled[0])
                    }
                }
            }
            Strategy::Script { decisions } => match decisions.iter().find(|(k, _)| *k == idx).map(|(_, t)| t) {
                Some(t) if enabled.contains(t) => *t,
                _ => match by {
                    Some(b) if enabled.contains(&b) => b,
                    _ => enabled[0],
                },
            },
        }
    }
}

impl Sim {
    fn lock_no(st: &mut State, addr: usize, name: &str) -> usize {
        if let Some(n) = st.lock_nos.get(&addr) {
            return *n;
        }
        let n = st.lock_nos.len();
        st.lock_nos.insert(addr, n);
        st.lock_names.push(name.to_string());
        n
    }

    fn reach(&self, me: usize, p: Pending, name: &'static str) {
        let mut st = self.st.lock().unwrap_or_else(|e| e.into_inner());
        if st.freerun {
            return;
        }
        st.last_event += 1;
        let lock = match &p {
            Pending::Acquire(a) => Some(Sim::lock_no(&mut st, *a, name)),
            _ => None,
        };
        st.threads[me].0 = Status::AtPoint(p.clone());
        if p == Pending::Start {
            self.main_cv.notify_all();
        } else {
            let enabled = st.enabled();
            if enabled.is_empty() {
                // every unfinished thread waits for a lock held by another waiting thread
                st.deadlock = true;
                self.main_cv.notify_all();
            } else {
                if let Pending::Acquire(_) = &p {
                    if !enabled.contains(&me) {
                        st.blocked_events += 1;
                    }
                }
                let next = st.pick(Some(me), &enabled);
                let mask = enabled.iter().fold(0u32, |m, t| m | (1 << (*t as u32 % 32)));
                let seq = st.trace.len();
                st.trace.push(Decision {
                    seq,
                    by: me,
                    chosen: next,
                    enabled: mask,
                    at: name.to_string(),
                    lock,
                });
                if next != me {
                    st.switches += 1;
                    if st.locks.values().any(|o| o.is_some()) {
                        st.switches_in_cs += 1;
                    }
                    st.baton = Some(next);
                    self.cvs[next].notify_all();
                }
            }
        }
        // wait for the baton
        while st.baton != Some(me) && !st.freerun {
            st = self.cvs[me].wait(st).unwrap_or_else(|e| e.into_inner());
        }
        if let Pending::Acquire(a) = &p {
            if !st.freerun {
                st.locks.insert(*a, Some(me));
            }
        }
        st.threads[me].0 = Status::Running;
    }

    fn release(&self, me: usize, addr: usize) {
        let mut st = self.st.lock().unwrap_or_else(|e| e.into_inner());
        st.last_event += 1;
        if st.locks.get(&addr).copied().flatten() == Some(me) {
            st.locks.insert(addr, None);
        }
    }

    fn finish(&self, me: usize) {
        let mut st = self.st.lock().unwrap_or_else(|e| e.into_inner());
        st.last_event += 1;
        st.threads[me].0 = Status::Finished;
        // a finished thread owns nothing
        for v in st.locks.values_mut() {
            if *v == Some(me) {
                *v = None;
            }
        }
        if st.freerun {
            self.main_cv.notify_all();
            return;
        }
        let unfinished = st.threads.iter().any(|(s, _)| *s != Status::Finished);
        if unfinished {
            let enabled = st.enabled();
            if enabled.is_empty() {
                st.deadlock = true;
            } else {
                let next = st.pick(None, &enabled);
                let mask = enabled.iter().fold(0u32, |m, t| m | (1 << (*t as u32 % 32)));
                let seq = st.trace.len();
                st.trace.push(Decision {
                    seq,
                    by: me,
                    chosen: next,
                    enabled: mask,
                    at: "end".into(),
                    lock: None,
                });
                st.baton = Some(next);
                self.cvs[next].notify_all();
            }
        } else {
            st.baton = None;
        }
        self.main_cv.notify_all();
    }
}

#[derive(Clone, Debug, Serialize)]
pub struct RunReport {
    pub decisions: usize,
    pub switches: usize,
    pub switches_in_critical_section: usize,
    pub blocked_on_lock: usize,
    pub deadlock: bool,
    pub freerun: bool,
    pub fuel_exhausted: bool,
    pub trace_hash: String,
    pub interleaving_hash: String,
    pub lock_names: Vec<String>,
    #[serde(skip)]
    pub trace: Vec<Decision>,
    /// threads that never finished (deadlock): the process must be abandoned
    pub stuck_threads: usize,
}

fn os_state(tid: i32) -> char {
    let p = format!("/proc/self/task/{}/stat", tid);
    std::fs::read_to_string(p)
        .ok()
        .and_then(|s| s.rsplit(") ").next().and_then(|r| r.chars().next()))
        .unwrap_or('?')
}

/// Run the thread bodies under the scheduler.  Returns when all finished, or on deadlock.
pub fn run_threads(
    bodies: Vec<Box<dyn FnOnce() + Send + 'static>>,
    strategy: Strategy,
    seed: u64,
    fuel: i64,
) -> RunReport {
    let n = bodies.len();
    let mut rng = Rng::new(seed);
    let mut prio: Vec<i64> = (0..n as i64).collect();
    rng.shuffle(&mut prio);
    let change_points: Vec<usize> = match &strategy {
        Strategy::Pct { d, est } => (0..*d).map(|_| 1 + rng.below((*est).max(2))).collect(),
        _ => vec![],
    };
    let rr_left = match &strategy {
        Strategy::RoundRobin { q } => *q,
        _ => 0,
    };
    let sim = Arc::new(Sim {
        st: Mutex::new(State {
            threads: vec![(Status::NotStarted, 0); n],
            locks: HashMap::new(),
            lock_nos: HashMap::new(),
            lock_names: vec![],
            baton: None,
            rng,
            strategy,
            prio,
            change_points,
            rr_left,
            trace: vec![],
            freerun: false,
            last_event: 0,
            deadlock: false,
            switches_in_cs: 0,
            switches: 0,
            blocked_events: 0,
        }),
        cvs: (0..n).map(|_| Condvar::new()).collect(),
        main_cv: Condvar::new(),
        fuel: AtomicI64::new(fuel),
        fuel_exhausted: AtomicBool::new(false),
    });
    let mut handles = vec![];
    for (i, body) in bodies.into_iter().enumerate() {
        let sim2 = sim.clone();
        let h = std::thread::Builder::new()
            .name(format!("sim-{}", i))
            .stack_size(32 * 1024 * 1024)
            .spawn(move || {
                {
                    let mut st = sim2.st.lock().unwrap_or_else(|e| e.into_inner());
                    st.threads[i].1 = unsafe { libc::gettid() } as i32;
                }
                CUR.with(|c| *c.borrow_mut() = Some((sim2.clone(), i)));
                sim2.reach(i, Pending::Start, "start");
                // the body contains its own panics per operation
                let r = std::panic::catch_unwind(std::panic::AssertUnwindSafe(body));
                let _ = r;
                CUR.with(|c| *c.borrow_mut() = None);
                sim2.finish(i);
            })
            .expect("spawn simulated thread");
        handles.push(h);
    }
    // wait until every thread is parked at Start, then hand out the baton
    {
        let mut st = sim.st.lock().unwrap_or_else(|e| e.into_inner());
        while st.threads.iter().any(|(s, _)| *s == Status::NotStarted) {
            st = sim.main_cv.wait(st).unwrap_or_else(|e| e.into_inner());
        }
        let enabled = st.enabled();
        let first = st.pick(None, &enabled);
        let mask = enabled.iter().fold(0u32, |m, t| m | (1 << (*t as u32 % 32)));
        st.trace.push(Decision {
            seq: 0,
            by: usize::MAX,
            chosen: first,
            enabled: mask,
            at: "begin".into(),
            lock: None,
        });
        st.baton = Some(first);
        sim.cvs[first].notify_all();
        // monitor: completion, deadlock, or a stall outside the seams
        let mut still = 0u32;
        let mut last = st.last_event;
        loop {
            if st.threads.iter().all(|(s, _)| *s == Status::Finished) || st.deadlock {
                break;
            }
            let (g, to) = sim
                .main_cv
                .wait_timeout(st, Duration::from_millis(20))
                .unwrap_or_else(|e| e.into_inner());
            st = g;
            if to.timed_out() && !st.freerun {
                if st.last_event == last {
                    let holder_state = st.baton.map(|b| os_state(st.threads[b].1)).unwrap_or('?');
                    if holder_state == 'S' || holder_state == 'D' {
                        still += 1;
                    } else {
                        still = 0;
                    }
                    if still >= 10 {
                        // blocked in the OS on something the seams do not own: release everyone
                        st.freerun = true;
                        for cv in &sim.cvs {
                            cv.notify_all();
                        }
                    }
                } else {
                    last = st.last_event;
                    still = 0;
                }
            }
        }
    }
    let (deadlock, freerun) = {
        let st = sim.st.lock().unwrap_or_else(|e| e.into_inner());
        (st.deadlock, st.freerun)
    };
    let mut stuck = 0;
    if !deadlock {
        for h in handles {
            let _ = h.join();
        }
    } else {
        stuck = {
            let st = sim.st.lock().unwrap_or_else(|e| e.into_inner());
            st.threads.iter().filter(|(s, _)| *s != Status::Finished).count()
        };
    }
    let st = sim.st.lock().unwrap_or_else(|e| e.into_inner());
    let mut full = String::new();
    let mut inter = String::new();
    for d in &st.trace {
        full.push_str(&format!("{}:{}>{}@{}#{:?}/{:x};", d.seq, d.by as i64, d.chosen, d.at, d.lock, d.enabled));
        inter.push_str(&format!("{}@{}#{:?};", d.chosen, d.at, d.lock));
    }
    RunReport {
        decisions: st.trace.len(),
        switches: st.switches,
        switches_in_critical_section: st.switches_in_cs,
        blocked_on_lock: st.blocked_events,
        deadlock,
        freerun,
        fuel_exhausted: sim.fuel_exhausted.load(Ordering::SeqCst),
        trace_hash: format!("{:x}", md5::compute(full.as_bytes())),
        interleaving_hash: format!("{:x}", md5::compute(inter.as_bytes())),
        lock_names: st.lock_names.clone(),
        trace: st.trace.clone(),
        stuck_threads: stuck,
    }
}

/// Sparse script reproducing a recorded trace: only the decisions that switched threads.
pub fn script_of(trace: &[Decision]) -> Vec<(usize, usize)> {
    trace
        .iter()
        .filter(|d| d.by != d.chosen)
        .map(|d| (d.seq, d.chosen))
        .collect()
}
