//! Worker-side dispatch: one function per job type.

use crate::worker::{JobOutput, WorkerCtx};
use serde_json::{json, Value};

pub mod disk;
pub mod env;
pub mod model;
pub mod procsim;

pub fn worker_init(_ctx: &mut WorkerCtx) {}

pub fn run_job(ctx: &mut WorkerCtx, job: &Value) -> JobOutput {
    match job["t"].as_str().unwrap_or("") {
        "disk" => disk::run(ctx, job),
        "env" => env::run(ctx, job),
        "model" => model::run(ctx, job),
        "proc" => procsim::run(ctx, job),
        "canary_abort" => {
            // selftest only: a worker death must be attributed to the job in flight
            std::process::abort();
        }
        "canary_hang" => loop {
            std::thread::sleep(std::time::Duration::from_millis(10));
        },
        other => JobOutput {
            result: json!({"class":"harness_error","detail":format!("unknown job type {}", other)}),
            tainted: false,
        },
    }
}
