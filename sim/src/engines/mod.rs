//! Worker-side dispatch: one function per job type.

use crate::worker::{JobOutput, WorkerCtx};
use serde_json::{json, Value};

pub mod disk;
pub mod env;
pub mod model;
pub mod procsim;

pub fn worker_init(_ctx: &mut WorkerCtx) {}

pub fn run_job(ctx: &mut WorkerCtx, job: &Value) -> JobOutput {
    match job["t"].as_str().unwrap_or("") {
        "disk" => disk::run(ctx, job),
        "env" => env::run(ctx, job),
        "model" => model::run(ctx, job),
        "proc" => procsim::run(ctx, job),
        "probe_entropy" => {
            // what the entropy / clock seam looks like from inside this process
            let set: std::collections::HashSet<u32> = (0..16).collect();
            let order: Vec<String> = set.iter().map(|x| x.to_string()).collect();
            let t = std::time::SystemTime::now()
                .duration_since(std::time::UNIX_EPOCH)
                .map(|d| d.as_secs())
                .unwrap_or(0);
            JobOutput {
                result: json!({"class":"probe","hashset_order":order.join(","),"time":t}),
                tainted: false,
            }
        }
        "probe_mono" => {
            // the monotonic clock seam: an opted-in thread sees every read `step` later than the
            // previous one; a thread that did not opt in keeps the real clock
            let step = job["step_ns"].as_i64().unwrap_or(0);
            let opted = std::thread::spawn(move || {
                set_mono_step(step);
                let a = std::time::Instant::now();
                let b = std::time::Instant::now();
                b.duration_since(a).as_nanos() as u64
            })
            .join()
            .unwrap_or(0);
            let plain = std::thread::spawn(|| {
                let a = std::time::Instant::now();
                let b = std::time::Instant::now();
                b.duration_since(a).as_nanos() as u64
            })
            .join()
            .unwrap_or(u64::MAX);
            JobOutput {
                result: json!({"class":"probe","opted_in_delta_ns":opted,"plain_delta_ns":plain}),
                tainted: false,
            }
        }
        "canary_deadlock" => {
            // two simulated threads take two hooked locks in opposite order
            crate::baton::install_hooks();
            static A: u8 = 0;
            static B: u8 = 1;
            let t0: Box<dyn FnOnce() + Send> = Box::new(|| {
                let _a = bemodel::verif_hooks::lock_scope(&A, "A");
                bemodel::verif_hooks::point("between");
                let _b = bemodel::verif_hooks::lock_scope(&B, "B");
            });
            let t1: Box<dyn FnOnce() + Send> = Box::new(|| {
                let _b = bemodel::verif_hooks::lock_scope(&B, "B");
                bemodel::verif_hooks::point("between");
                let _a = bemodel::verif_hooks::lock_scope(&A, "A");
            });
            let rep = crate::baton::run_threads(vec![t0, t1], crate::baton::Strategy::RoundRobin { q: 0 }, 1, 1_000_000);
            JobOutput {
                result: json!({"class":"canary","report":serde_json::to_value(&rep).unwrap()}),
                tainted: true,
            }
        }
        "canary_poison" => {
            // a harness-made panic while a climate table is locked, then a healthy computation
            let first = crate::panics::contain(|| {
                let _g = bemodel::climatedata::JULYRADDATA.lock();
                panic!("canary: panic under the JULYRADDATA guard");
            });
            let v = model::base_value("bemodel/tests/data/cubo.json");
            let txt = serde_json::to_string(&v).unwrap();
            let second = crate::panics::contain(|| {
                let m = bemodel::Model::from_json(&txt).unwrap();
                m.energy_indicators().area_ref
            });
            JobOutput {
                result: json!({"class":"canary","first_panicked":first.is_err(),
                    "second_computation": match second { Ok(_) => "returned".to_string(), Err(p) => format!("panicked: {}", p.site.msg) }}),
                tainted: true,
            }
        }
        "canary_abort" => {
            // selftest only: a worker death must be attributed to the job in flight
            std::process::abort();
        }
        "canary_hang" => loop {
            std::thread::sleep(std::time::Duration::from_millis(10));
        },
        other => JobOutput {
            result: json!({"class":"harness_error","detail":format!("unknown job type {}", other)}),
            tainted: false,
        },
    }
}

/// Ask the LD_PRELOAD shim (if loaded) to make every monotonic-clock read of the calling thread
/// `ns` nanoseconds later than the previous one (the clock of a slow or stalled machine).
pub fn set_mono_step(ns: i64) {
    unsafe {
        let f = libc::dlsym(libc::RTLD_DEFAULT, b"verifshim_mono_step\0".as_ptr() as *const libc::c_char);
        if !f.is_null() {
            let f: extern "C" fn(i64) = std::mem::transmute(f);
            f(ns);
        }
    }
}

/// Step configured for this worker process (VERIF_MONO_STEP_NS), 0 = real clock.
pub fn mono_step_from_env() -> i64 {
    std::env::var("VERIF_MONO_STEP_NS").ok().and_then(|s| s.parse().ok()).unwrap_or(0)
}
