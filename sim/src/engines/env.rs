//! Process-level simulation of the export tools: the real `hulc2model` / `thor` binaries run
//! in a simulated project directory with a simulated environment; the reference is the
//! in-process library conversion of the very same directory.

use crate::fdcap::capture_stdout;
use crate::panics::{contain, repo_root, skeleton};
use crate::worker::{JobOutput, WorkerCtx};
use serde_json::{json, Value};
use std::io::Read;
use std::path::{Path, PathBuf};
use std::process::{Command, Stdio};
use std::time::{Duration, Instant};

fn bins_dir() -> PathBuf {
    std::env::var("CTESIM_BINS")
        .map(PathBuf::from)
        .unwrap_or_else(|_| crate::report::verif_dir().join("target-bins/debug"))
}

fn has(job: &Value, f: &str) -> bool {
    job["fs"]
        .as_array()
        .map(|a| a.iter().any(|x| x.as_str() == Some(f)))
        .unwrap_or(false)
}

/// Build the simulated project directory.  Returns (dir given to the tool, real dir).
fn build_dir(job: &Value, scratch: &Path) -> std::io::Result<(PathBuf, PathBuf)> {
    let root = scratch.join("envcase");
    let _ = std::fs::remove_dir_all(&root);
    std::fs::create_dir_all(&root)?;
    // fs.odd_dir_name: the real directory has characters that mean something to glob / shells
    let proj = if has(job, "odd_dir_name") {
        root.join(job["odd_name"].as_str().unwrap_or("Proyecto [rev2]"))
    } else {
        root.join("proj")
    };
    let pname = job["project"].as_str().unwrap_or("");
    let src = if let Some(gseed) = crate::projgen::seed_of(pname) {
        // a project printed by the generator, next to the (now stale) result files of its template
        let g = scratch.join("gensrc");
        let _ = std::fs::remove_dir_all(&g);
        std::fs::create_dir_all(&g)?;
        std::fs::write(g.join(format!("gen{}.ctehexml", gseed)), crate::projgen::generate(gseed))?;
        if let Some(tdir) = Path::new(&repo_root()).join(crate::projgen::TEMPLATE).parent() {
            for side in ["KyGananciasSolares.txt", "NewBDL_O.tbl"] {
                if tdir.join(side).exists() {
                    std::fs::copy(tdir.join(side), g.join(side))?;
                }
            }
        }
        g
    } else {
        Path::new(&repo_root()).join(pname)
    };
    if has(job, "absent_dir") {
        return Ok((proj.clone(), proj));
    }
    if has(job, "file_not_dir") {
        std::fs::write(&proj, b"not a directory")?;
        return Ok((proj.clone(), proj));
    }
    std::fs::create_dir_all(&proj)?;
    if !has(job, "empty_dir") {
        let mut entries: Vec<PathBuf> = std::fs::read_dir(&src)?
            .filter_map(|e| e.ok().map(|e| e.path()))
            .collect();
        entries.sort();
        for f in entries {
            if !f.is_file() {
                continue;
            }
            let name = f.file_name().unwrap().to_string_lossy().to_string();
            let is_proj = name.to_lowercase().ends_with(".ctehexml");
            if is_proj && has(job, "only_side_files") {
                continue;
            }
            if name == "KyGananciasSolares.txt" && has(job, "missing_kyg") {
                continue;
            }
            if name == "NewBDL_O.tbl" && has(job, "missing_tbl") {
                continue;
            }
            let dst_name = if is_proj && has(job, "wrong_case_ext") {
                name.replace(".ctehexml", ".CTEHEXML")
            } else {
                name.clone()
            };
            std::fs::copy(&f, proj.join(&dst_name))?;
            if is_proj && has(job, "two_projects") {
                // a second, later-sorting copy: the tool and the library must agree on the pick
                std::fs::copy(&f, proj.join(format!("zz_{}", name)))?;
            }
        }
    }
    if has(job, "stale_gains_table") {
        // HULC rewrote the element rows of KyGananciasSolares.txt after the windows were renamed,
        // but the solar-gains table at the end of the file still has the old names
        if let Ok(b) = std::fs::read(proj.join("KyGananciasSolares.txt")) {
            let t = crate::corpus::latin1_to_string(&b);
            let mut out = String::new();
            for l in t.split_inclusive('\n') {
                if l.starts_with("Ventana;") {
                    let mut f: Vec<String> = l.split(';').map(|x| x.to_string()).collect();
                    if f.len() > 2 {
                        f[1] = format!("{}_r2", f[1].trim_end());
                        out.push_str(&f.join(";"));
                        continue;
                    }
                }
                out.push_str(l);
            }
            let _ = std::fs::write(proj.join("KyGananciasSolares.txt"), crate::corpus::string_to_latin1(&out));
        }
    }
    if has(job, "stale_results") || has(job, "stale_gains_table") {
        // the project was edited after HULC wrote its result files: every window was renamed
        // in the .ctehexml, KyGananciasSolares.txt / NewBDL_O.tbl still carry the old names
        if let Ok(rd) = std::fs::read_dir(&proj) {
            for e in rd.flatten() {
                let p = e.path();
                if p.extension().map(|x| x == "ctehexml").unwrap_or(false) {
                    if let Ok(t) = std::fs::read_to_string(&p) {
                        let mut out = String::with_capacity(t.len() + 1024);
                        for l in t.split_inclusive('\n') {
                            let tr = l.trim_end();
                            if tr.trim_start().starts_with('"') && tr.ends_with("= WINDOW") {
                                if let Some(q) = tr.rfind('"') {
                                    out.push_str(&l[..q]);
                                    out.push_str("_r2");
                                    out.push_str(&l[q..]);
                                    continue;
                                }
                            }
                            out.push_str(l);
                        }
                        let _ = std::fs::write(&p, out);
                    }
                }
            }
        }
    }
    if has(job, "unicode_texts") {
        // the free-text leaves of <DatosGenerales> get characters of 2, 3 and 4 UTF-8 bytes
        // (the last kind needs a surrogate pair when JSON-escaped)
        if let Ok(rd) = std::fs::read_dir(&proj) {
            for e in rd.flatten() {
                let p = e.path();
                if p.extension().map(|x| x.to_string_lossy().to_lowercase() == "ctehexml").unwrap_or(false) {
                    if let Ok(t) = std::fs::read_to_string(&p) {
                        let mut out = t.clone();
                        for tag in ["nomPro", "autor", "autorEmail", "nomEdif", "dirCalle", "locSel"] {
                            let open = format!("<{}>", tag);
                            let close = format!("</{}>", tag);
                            if let (Some(a), Some(b)) = (out.find(&open), out.find(&close)) {
                                if a < b {
                                    out.insert_str(b, " ñ € \u{1D538} \u{1F600}");
                                }
                            }
                        }
                        let _ = std::fs::write(&p, out);
                    }
                }
            }
        }
    }
    if has(job, "extra_files") {
        std::fs::write(proj.join("LEEME.txt"), b"notas del proyecto\n{\"no\": \"es el modelo\"}\n")?;
        std::fs::write(proj.join("salida_anterior.json"), b"{\"meta\": {}}\n")?;
        std::fs::write(proj.join("copia.ctehexml.bak"), b"<xml/>")?;
        std::fs::create_dir_all(proj.join("CALENER-GT"))?;
        std::fs::write(proj.join("CALENER-GT").join("x.txt"), b"x")?;
    }
    let pname = proj.file_name().unwrap().to_string_lossy().to_string();
    let given = match job["path_form"].as_str().unwrap_or("abs") {
        "rel" => PathBuf::from(&pname),
        "dot_rel" => PathBuf::from(format!("./{}", pname)),
        "trailing_slash" => PathBuf::from(format!("{}/", proj.display())),
        // the user is inside the project directory and passes "."
        "dot" => PathBuf::from("."),
        // the user passes the .ctehexml file itself instead of its directory
        "file_arg" => {
            let f = std::fs::read_dir(&proj).ok().and_then(|rd| rd.flatten().map(|e| e.path()).find(|p| p.extension().map(|x| x == "ctehexml").unwrap_or(false)));
            f.unwrap_or_else(|| proj.join("proyecto.ctehexml"))
        }
        // a path that goes through a symbolic link and then "..": for the operating system
        // `trabajo/enlace/..` is the parent of the link's TARGET (almacen), not `trabajo`
        "symlink_dotdot" => {
            let store = root.join("almacen");
            let _ = std::fs::create_dir_all(store.join("sub"));
            let _ = std::os::unix::fs::symlink(&proj, store.join("proyecto_enlazado"));
            let work = root.join("trabajo");
            let _ = std::fs::create_dir_all(&work);
            let _ = std::os::unix::fs::symlink(store.join("sub"), work.join("enlace"));
            work.join("enlace").join("..").join("proyecto_enlazado")
        }
        // repeated separators and "." components
        "redundant" => PathBuf::from(format!("{}//./{}/.", root.display(), pname)),
        "symlink" => {
            let l = root.join("enlace");
            let _ = std::os::unix::fs::symlink(&proj, &l);
            l
        }
        _ => proj.clone(),
    };
    Ok((given, proj))
}

/// how often the suspend/resume fault actually landed inside a blocked write (per worker)
pub static STOP_CONT_FIRED: std::sync::atomic::AtomicU64 = std::sync::atomic::AtomicU64::new(0);

struct ToolRun {
    status: Option<i32>,
    signal: bool,
    stdout: Vec<u8>,
    stderr: Vec<u8>,
    timed_out: bool,
}

/// The simulated stdout device: a pipe, a regular file (`> salida.json`) or a terminal (pty).
fn run_tool(cmd: &mut Command, timeout: Duration, device: &str, scratch: &Path) -> std::io::Result<ToolRun> {
    use std::os::unix::io::FromRawFd;
    cmd.stdin(Stdio::null()).stderr(Stdio::piped());
    let file_path = scratch.join("stdout_device.out");
    let mut master_fd: i32 = -1;
    match device {
        "file" => {
            cmd.stdout(Stdio::from(std::fs::File::create(&file_path)?));
        }
        "tty" => unsafe {
            let mut m: libc::c_int = 0;
            let mut sl: libc::c_int = 0;
            if libc::openpty(&mut m, &mut sl, std::ptr::null_mut(), std::ptr::null_mut(), std::ptr::null_mut()) == 0 {
                master_fd = m;
                cmd.stdout(Stdio::from(std::fs::File::from_raw_fd(sl)));
            } else {
                cmd.stdout(Stdio::piped());
            }
        },
        // the output cannot be written at all: a full disk (ENOSPC on every write) ...
        "dev_full" => {
            cmd.stdout(Stdio::from(std::fs::OpenOptions::new().write(true).open("/dev/full")?));
        }
        // ... or a consumer that has already gone away (EPIPE on the first write; SIGPIPE is
        // ignored in Rust programs)
        "closed_pipe" => unsafe {
            let mut fds = [0 as libc::c_int; 2];
            if libc::pipe2(fds.as_mut_ptr(), libc::O_CLOEXEC) == 0 {
                libc::close(fds[0]);
                cmd.stdout(Stdio::from(std::fs::File::from_raw_fd(fds[1])));
            } else {
                cmd.stdout(Stdio::piped());
            }
        },
        _ => {
            cmd.stdout(Stdio::piped());
        }
    }
    let mut child = cmd.spawn()?;
    // the parent's copy of the slave end went into the Command; drop it so EOF/EIO arrives
    cmd.stdout(Stdio::null());
    let so_pipe = child.stdout.take();
    let mut se = child.stderr.take().unwrap();
    // "slow_pipe_stop": the consumer at the other end of the pipe does not read until the tool is
    // blocked in write(1, ..) on the full pipe; the tool is then suspended and resumed (job
    // control: ^Z / fg, or a supervisor's SIGSTOP / SIGCONT), which makes the blocked write
    // return short; only then does the consumer drain the pipe
    let gate = std::sync::Arc::new(std::sync::atomic::AtomicBool::new(device != "slow_pipe_stop"));
    let gate2 = gate.clone();
    let h1 = std::thread::spawn(move || {
        let mut b = vec![];
        while !gate2.load(std::sync::atomic::Ordering::SeqCst) {
            std::thread::sleep(Duration::from_millis(1));
        }
        if let Some(mut so) = so_pipe {
            let _ = so.read_to_end(&mut b);
        } else if master_fd >= 0 {
            let mut f = unsafe { std::fs::File::from_raw_fd(master_fd) };
            let mut buf = [0u8; 65536];
            loop {
                match f.read(&mut buf) {
                    Ok(0) => break,
                    Ok(n) => b.extend_from_slice(&buf[..n]),
                    Err(_) => break, // EIO when the slave side is closed
                }
            }
        }
        b
    });
    let h2 = std::thread::spawn(move || {
        let mut b = vec![];
        let _ = se.read_to_end(&mut b);
        b
    });
    let t0 = Instant::now();
    let mut timed_out = false;
    let pid = child.id() as i32;
    let mut blocked_polls = 0;
    let st = loop {
        match child.try_wait()? {
            Some(s) => {
                gate.store(true, std::sync::atomic::Ordering::SeqCst);
                break s;
            }
            None => {
                if !gate.load(std::sync::atomic::Ordering::SeqCst) {
                    // x86_64: syscall 1 = write, first argument = fd 1
                    let sc = std::fs::read_to_string(format!("/proc/{}/syscall", pid)).unwrap_or_default();
                    if sc.starts_with("1 0x1 ") {
                        blocked_polls += 1;
                    } else {
                        blocked_polls = 0;
                    }
                    if blocked_polls >= 3 {
                        unsafe {
                            libc::kill(pid, libc::SIGSTOP);
                        }
                        for _ in 0..200 {
                            let stt = std::fs::read_to_string(format!("/proc/{}/stat", pid)).unwrap_or_default();
                            if stt.rsplit(") ").next().map(|r| r.starts_with('T')).unwrap_or(true) {
                                break;
                            }
                            std::thread::sleep(Duration::from_millis(1));
                        }
                        unsafe {
                            libc::kill(pid, libc::SIGCONT);
                        }
                        STOP_CONT_FIRED.fetch_add(1, std::sync::atomic::Ordering::SeqCst);
                        gate.store(true, std::sync::atomic::Ordering::SeqCst);
                    }
                }
                if t0.elapsed() > timeout {
                    let _ = child.kill();
                    timed_out = true;
                    break child.wait()?;
                }
                std::thread::sleep(Duration::from_millis(2));
            }
        }
    };
    let mut out_bytes = h1.join().unwrap_or_default();
    if device == "file" {
        out_bytes = std::fs::read(&file_path).unwrap_or_default();
        let _ = std::fs::remove_file(&file_path);
    }
    Ok(ToolRun {
        status: st.code(),
        signal: st.code().is_none(),
        stdout: out_bytes,
        stderr: h2.join().unwrap_or_default(),
        timed_out,
    })
}

/// Does the text hold a JSON document (object or array) anywhere?
fn holds_json(s: &str) -> bool {
    if serde_json::from_str::<Value>(s).map(|v| v.is_object() || v.is_array()).unwrap_or(false) {
        return true;
    }
    for (i, c) in s.char_indices() {
        if c == '{' || c == '[' {
            let mut it = serde_json::Deserializer::from_str(&s[i..]).into_iter::<Value>();
            if let Some(Ok(v)) = it.next() {
                if (v.is_object() && !v.as_object().unwrap().is_empty())
                    || (v.is_array() && !v.as_array().unwrap().is_empty())
                {
                    return true;
                }
            }
        }
    }
    false
}

fn strip_extra(mut v: Value) -> Value {
    if let Some(o) = v.as_object_mut() {
        o.remove("extra");
    }
    v
}

fn head(b: &[u8]) -> String {
    let s = String::from_utf8_lossy(b);
    let l = s.lines().find(|l| !l.trim().is_empty()).unwrap_or("");
    skeleton(&l.chars().take(40).collect::<String>())
}

pub fn run(ctx: &mut WorkerCtx, job: &Value) -> JobOutput {
    let tool = job["tool"].as_str().unwrap_or("hulc2model").to_string();
    let use_extra = job["use_extra"].as_bool().unwrap_or(false);
    let mut tainted = false;
    let mut result = json!({"class":"ok"});
    let (given, real) = match build_dir(job, &ctx.scratch) {
        Ok(p) => p,
        Err(e) => {
            return JobOutput {
                result: json!({"class":"harness_error","detail":format!("build_dir: {}", e)}),
                tainted: false,
            }
        }
    };
    let root = ctx.scratch.join("envcase");
    // ---- reference: the library, in process, on the same directory
    // ("the same directory" = the same path string resolved from the same working directory)
    let _ = &real;
    let given_s = given.to_string_lossy().to_string();
    let old_cwd = std::env::current_dir().ok();
    let run_cwd = if job["path_form"] == "dot" && real.is_dir() { real.clone() } else { root.clone() };
    let _ = std::env::set_current_dir(&run_cwd);
    let (reference, lib_stdout) = capture_stdout(|| {
        contain(|| {
            let found = if Path::new(&given_s).exists() {
                hulc::ctehexml::find_ctehexml(&given_s).ok().flatten()
            } else {
                None
            };
            let conv = hulc2model::collect_hulc_data(&given_s, use_extra, use_extra);
            (found, conv)
        })
    });
    if let Some(c) = old_cwd {
        let _ = std::env::set_current_dir(c);
    }
    let (found, conv) = match reference {
        Ok(x) => x,
        Err(p) => {
            // the library itself crashes on this directory: precondition false, judged elsewhere
            result["class"] = json!("precondition_false");
            result["lib_panic"] = serde_json::to_value(&p.site).unwrap();
            return JobOutput { result, tainted: true };
        }
    };
    let no_project = found.is_none();
    result["lib_stdout_bytes"] = json!(lib_stdout.len());
    let mut problems: Vec<Value> = vec![];
    if !lib_stdout.is_empty() && conv.is_ok() {
        problems.push(json!({"class":"library_writes_to_stdout","tool":"(library)","head":head(&lib_stdout)}));
    }
    // ---- the tool, as a real process
    let bin = bins_dir().join(&tool);
    if !bin.exists() {
        return JobOutput {
            result: json!({"class":"harness_error","detail":format!("binary {} not built", bin.display())}),
            tainted: false,
        };
    }
    let mut cmd = Command::new(&bin);
    cmd.env_clear();
    cmd.env("PATH", "/usr/bin:/bin");
    if let Some(l) = job["rust_log"].as_str() {
        cmd.env("RUST_LOG", l);
    }
    if let Some(l) = job["lang"].as_str() {
        cmd.env("LANG", l);
    }
    let shim = crate::orch::shim_path();
    if shim.exists() {
        cmd.env("LD_PRELOAD", &shim);
        if let Some(s) = job["hash_seed"].as_u64() {
            cmd.env("VERIF_HASH_SEED", s.to_string());
        }
        if let Some(s) = job["fake_time"].as_u64() {
            cmd.env("VERIF_FAKE_TIME", s.to_string());
        }
    }
    cmd.current_dir(&run_cwd);
    // -o / -r as the user types them: absolute, or relative to the working directory
    let out_form = job["out_form"].as_str().unwrap_or("abs");
    let (arg_model, arg_ind): (PathBuf, PathBuf) = match out_form {
        "rel" => (PathBuf::from("modelo_salida.json"), PathBuf::from("indicadores_salida.json")),
        "rel_subdir" => {
            let _ = std::fs::create_dir_all(run_cwd.join("salidas"));
            (PathBuf::from("salidas/modelo_salida.json"), PathBuf::from("./salidas/indicadores_salida.json"))
        }
        _ => (root.join("modelo_salida.json"), root.join("indicadores_salida.json")),
    };
    let out_model = if arg_model.is_absolute() { arg_model.clone() } else { run_cwd.join(&arg_model) };
    let out_ind = if arg_ind.is_absolute() { arg_ind.clone() } else { run_cwd.join(&arg_ind) };
    let _ = std::fs::remove_file(&out_model);
    let _ = std::fs::remove_file(&out_ind);
    if has(job, "stale_output") {
        // the output paths already hold an older, longer export (the user re-exports in place)
        let mut stale = String::from("{\"meta\": {\"name\": \"exportación anterior\"}, \"relleno\": [");
        for i in 0..60_000 {
            stale.push_str(&format!("{}, ", i));
        }
        stale.push_str("0]}\n");
        let _ = std::fs::write(&out_model, &stale);
        let _ = std::fs::write(&out_ind, &stale);
    }
    if tool == "hulc2model" {
        // argument variants that mean the same thing: a repeated flag, an option the tool ignores
        if job["args_variant"] == "unknown_opt" {
            cmd.arg("--sin-efecto");
        }
        if use_extra {
            cmd.arg("--use-extra");
            if job["args_variant"] == "dup_flag" {
                cmd.arg("--use-extra");
            }
        }
        cmd.arg(&given);
    } else {
        // thor takes the .ctehexml file
        let file = match &found {
            // already expressed through the same path form as the directory
            Some(f) => f.clone(),
            None => given.join("no_existe.ctehexml"),
        };
        cmd.arg(&file).arg("-o").arg(&arg_model);
        if job["thor_r"].as_bool().unwrap_or(false) {
            cmd.arg("-r").arg(&arg_ind);
        }
        for _ in 0..job["thor_v"].as_u64().unwrap_or(0) {
            cmd.arg("-v");
        }
    }
    let device = job["stdout_to"].as_str().unwrap_or("pipe").to_string();
    let fired0 = STOP_CONT_FIRED.load(std::sync::atomic::Ordering::SeqCst);
    let run = match run_tool(&mut cmd, Duration::from_secs(120), &device, &ctx.scratch) {
        Ok(r) => r,
        Err(e) => {
            return JobOutput {
                result: json!({"class":"harness_error","detail":format!("spawn {}: {}", bin.display(), e)}),
                tainted: false,
            }
        }
    };
    result["stop_cont_in_blocked_write"] = json!(STOP_CONT_FIRED.load(std::sync::atomic::Ordering::SeqCst) > fired0);
    result["status"] = json!(run.status);
    result["stdout_bytes"] = json!(run.stdout.len());
    result["stderr_bytes"] = json!(run.stderr.len());
    let stdout = String::from_utf8_lossy(&run.stdout).to_string();
    if run.timed_out {
        problems.push(json!({"class":"tool_hangs","tool":tool}));
    }
    if device == "dev_full" || device == "closed_pipe" {
        // the document cannot be delivered, so the first half of the property cannot hold; what
        // must still hold is that the tool does not report success (status 0) for a document
        // that never arrived. Nothing else is judged under this fault.
        result["case"] = json!("stdout_unwritable");
        if conv.is_ok() && tool == "hulc2model" && run.status == Some(0) {
            problems.push(json!({"class":"status_zero_but_stdout_write_failed","tool":tool,"device":device}));
        }
        if !problems.is_empty() {
            result["class"] = json!("violation");
            result["problems"] = json!(problems);
            result["stderr_tail"] = json!(String::from_utf8_lossy(&run.stderr).lines().rev().take(3).collect::<Vec<_>>().join(" | "));
        }
        let _ = std::fs::remove_dir_all(&root);
        return JobOutput { result, tainted: false };
    }
    match (&conv, no_project) {
        (Ok(model), _) => {
            result["case"] = json!("convertible");
            let ref_json = model.as_json().unwrap_or_default();
            let ref_val: Value = serde_json::from_str(&ref_json).unwrap_or(Value::Null);
            if tool == "hulc2model" {
                if run.status != Some(0) {
                    problems.push(json!({"class":"status_nonzero","tool":tool,"status":format!("{:?} signal={}", run.status, run.signal)}));
                }
                match serde_json::from_str::<Value>(&stdout) {
                    Ok(v) => {
                        if v != ref_val {
                            problems.push(json!({"class":"stdout_model_differs","tool":tool}));
                        }
                        match bemodel::Model::from_json(&stdout) {
                            Ok(m2) => {
                                let v2: Value = serde_json::from_str(&m2.as_json().unwrap_or_default()).unwrap_or(Value::Null);
                                if v2 != ref_val {
                                    problems.push(json!({"class":"stdout_model_loads_but_differs","tool":tool}));
                                }
                            }
                            Err(_) => problems.push(json!({"class":"stdout_json_does_not_load_as_model","tool":tool})),
                        }
                        result["byte_identical"] = json!(stdout.trim_end() == ref_json.trim_end());
                    }
                    Err(_) => {
                        problems.push(json!({"class":"stdout_not_exactly_one_json_document","tool":tool,"head":head(&run.stdout)}));
                    }
                }
            } else {
                // thor: the model goes to the -o file; judged only for the plain conversion
                if run.status != Some(0) {
                    problems.push(json!({"class":"status_nonzero","tool":tool,"status":format!("{:?} signal={}", run.status, run.signal)}));
                }
                match std::fs::read_to_string(&out_model) {
                    Ok(txt) => match serde_json::from_str::<Value>(&txt) {
                        Ok(v) => {
                            if bemodel::Model::from_json(&txt).is_err() {
                                problems.push(json!({"class":"thor_out_does_not_load_as_model","tool":tool}));
                            }
                            if !use_extra && strip_extra(v) != strip_extra(ref_val) {
                                problems.push(json!({"class":"thor_out_model_differs","tool":tool}));
                            }
                        }
                        Err(_) => problems.push(json!({"class":"thor_out_not_json","tool":tool})),
                    },
                    Err(_) => problems.push(json!({"class":"thor_out_file_missing","tool":tool})),
                }
            }
        }
        (Err(_), true) => {
            result["case"] = json!("no_project");
            if tool == "hulc2model" {
                if run.status == Some(0) {
                    problems.push(json!({"class":"noproject_status_zero","tool":tool}));
                }
                if holds_json(&stdout) {
                    problems.push(json!({"class":"noproject_json_on_stdout","tool":tool,"head":head(&run.stdout)}));
                }
            }
        }
        (Err(e), false) => {
            result["case"] = json!("lib_err");
            result["lib_err"] = json!(format!("{}", e).lines().next().unwrap_or("").chars().take(80).collect::<String>());
        }
    }
    if run.signal && !run.timed_out {
        tainted = false;
    }
    if !problems.is_empty() {
        result["class"] = json!("violation");
        result["problems"] = json!(problems);
        result["stdout_head"] = json!(String::from_utf8_lossy(&run.stdout).chars().take(120).collect::<String>());
        result["stderr_tail"] = json!(String::from_utf8_lossy(&run.stderr).lines().rev().take(3).collect::<Vec<_>>().join(" | "));
    }
    let _ = std::fs::remove_dir_all(&root);
    JobOutput { result, tainted }
}
