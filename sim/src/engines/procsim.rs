//! The simulated process: caller threads running conversions and indicator computations
//! under the baton scheduler, histories on one thread, and single operations in a fresh
//! process.  Every operation result is reduced to a content hash that is compared with
//! the isolated reference by the orchestrator.

use crate::baton::{self, Strategy};
use crate::closure;
use crate::corpus::FileKind;
use crate::diskfault;
use crate::engines::disk;
use crate::engines::model as emodel;
use crate::panics::contain;
use crate::worker::{JobOutput, WorkerCtx};
use bemodel::Model;
use serde_json::{json, Value};
use std::collections::BTreeMap;
use std::sync::{Arc, Mutex};

fn md5hex(b: &[u8]) -> String {
    format!("{:x}", md5::compute(b))
}

/// (collection, name) -> id for every named element of a model value
fn id_map(v: &Value) -> BTreeMap<String, String> {
    let mut out = BTreeMap::new();
    for (coll, path) in closure::COLLECTIONS {
        for e in closure::collection(v, path) {
            if let (Some(id), Some(name)) = (
                e.get("id").and_then(|x| x.as_str()),
                e.get("name").and_then(|x| x.as_str()),
            ) {
                out.insert(format!("{}/{}", coll, name), id.to_string());
            }
        }
    }
    out
}

/// Block types whose definitions are referred to by name only (never by position), so a
/// copy under a new name is unrelated to every existing element.
pub const UNRELATED_TYPES: &[&str] = &[
    "MATERIAL",
    "LAYERS",
    "GLASS-TYPE",
    "NAME-FRAME",
    "GAP",
    "DAY-SCHEDULE-PD",
    "WEEK-SCHEDULE-PD",
    "SCHEDULE-PD",
    "SPACE-CONDITIONS",
    "SYSTEM-CONDITIONS",
    "POLYGON",
    "BUILDING-SHADE",
];

/// Text of `file` with the `k`-th eligible block copied under a new name right after it.
pub fn with_unrelated_definition(text: &str, k: usize) -> Option<(String, String)> {
    let lines = diskfault::split_lines(text);
    let blocks: Vec<_> = diskfault::scan_blocks(&lines)
        .into_iter()
        .filter(|b| UNRELATED_TYPES.contains(&b.btype.as_str()))
        .collect();
    if blocks.is_empty() {
        return None;
    }
    let b = &blocks[k % blocks.len()];
    let mut out: Vec<String> = lines[..=b.end].iter().map(|s| s.to_string()).collect();
    let header = lines[b.start];
    let spans = diskfault::quoted_spans(header);
    let (_, e) = *spans.first()?;
    out.push(format!("{}_VRFNEW{}", &header[..e], &header[e..]));
    for l in &lines[b.start + 1..=b.end] {
        out.push(l.to_string());
    }
    for l in &lines[b.end + 1..] {
        out.push(l.to_string());
    }
    Some((out.join("\n"), format!("{} {:?}", b.btype, b.name)))
}

/// Text with the `k`-th by-name block (CONSTRUCTION blocks included) copied right after itself
/// under a new name and with OTHER VALUES: every number of the copy is multiplied by 1.5, and a
/// copied CONSTRUCTION gets the finish ABSORPTANCE = 0.9 (a second finish of the same layers).
/// Nothing refers to the copy.
pub fn with_revalued_copy(text: &str, k: usize) -> Option<(String, String)> {
    let lines = diskfault::split_lines(text);
    let blocks: Vec<_> = diskfault::scan_blocks(&lines)
        .into_iter()
        .filter(|b| UNRELATED_TYPES.contains(&b.btype.as_str()) || b.btype == "CONSTRUCTION")
        .collect();
    if blocks.is_empty() {
        return None;
    }
    // constructions are many (one per wall): give them half of the picks
    let cons: Vec<_> = blocks.iter().filter(|b| b.btype == "CONSTRUCTION").collect();
    let b = if k % 2 == 0 && !cons.is_empty() { cons[(k / 2) % cons.len()] } else { &blocks[k % blocks.len()] };
    let header = lines[b.start];
    let spans = diskfault::quoted_spans(header);
    let (_, e) = *spans.first()?;
    let new_name = format!("{}0.90", b.name);
    if text.contains(&format!("\"{}\"", new_name)) {
        return None;
    }
    let mut out: Vec<String> = lines[..=b.end].iter().map(|s| s.to_string()).collect();
    out.push(format!("{}0.90{}", &header[..e], &header[e..]));
    let mut has_abs = false;
    for l in &lines[b.start + 1..b.end] {
        let t = l.trim_start();
        if b.btype == "CONSTRUCTION" && t.starts_with("ABSORPTANCE") {
            has_abs = true;
            out.push("                        ABSORPTANCE = 0.900000".to_string());
            continue;
        }
        let sp = diskfault::numeric_spans(l);
        if let Some((s0, e0)) = sp.first() {
            if let Ok(x) = l[*s0..*e0].parse::<f64>() {
                // only plain decimal values (an integer may be a count, a list has its own syntax)
                if x.is_finite() && x > 0.0 && x < 1.0e6 && l[*s0..*e0].contains('.') && !l.contains('(') && sp.len() == 1 {
                    out.push(format!("{}{}{}", &l[..*s0], ((x * 1.5) * 1000.0).round() / 1000.0, &l[*e0..]));
                    continue;
                }
            }
        }
        out.push(l.to_string());
    }
    if b.btype == "CONSTRUCTION" && !has_abs {
        out.push("                        ABSORPTANCE = 0.900000".to_string());
    }
    out.push(lines[b.end].to_string());
    for l in &lines[b.end + 1..] {
        out.push(l.to_string());
    }
    Some((out.join("\n"), format!("{} {:?} with other values", b.btype, b.name)))
}

/// A name that differs from `name` only in letter case / in repeated blanks (None when the
/// transformation leaves it unchanged).
pub fn near_name(name: &str, how: &str) -> Option<String> {
    let n = match how {
        "lower" => name.to_lowercase(),
        "upper" => name.to_uppercase(),
        "blank2" => name.replacen(' ', "  ", 1),
        "blank1" => name.replacen("  ", " ", 1),
        "trail" => format!("{} ", name),
        _ => return None,
    };
    if n == name {
        None
    } else {
        Some(n)
    }
}

/// Text with the `k`-th by-name block copied right after itself under a name that differs
/// only in case / blanks from the original (an unrelated definition that nothing refers to).
pub fn with_near_name_copy(text: &str, k: usize, how: &str) -> Option<(String, String)> {
    let lines = diskfault::split_lines(text);
    let blocks: Vec<_> = diskfault::scan_blocks(&lines)
        .into_iter()
        .filter(|b| UNRELATED_TYPES.contains(&b.btype.as_str()) && near_name(&b.name, how).is_some())
        .collect();
    if blocks.is_empty() {
        return None;
    }
    let b = &blocks[k % blocks.len()];
    let nn = near_name(&b.name, how)?;
    // the new name must not exist already
    if text.contains(&format!("\"{}\"", nn)) {
        return None;
    }
    let mut out: Vec<String> = lines[..=b.end].iter().map(|s| s.to_string()).collect();
    out.push(lines[b.start].replacen(&format!("\"{}\"", b.name), &format!("\"{}\"", nn), 1));
    for l in &lines[b.start + 1..=b.end] {
        // the NAME attribute some blocks repeat must follow the header
        out.push(l.replace(&format!("\"{}\"", b.name), &format!("\"{}\"", nn)));
    }
    for l in &lines[b.end + 1..] {
        out.push(l.to_string());
    }
    Some((out.join("\n"), format!("{} {:?} -> {:?}", b.btype, b.name, nn)))
}

/// Text with two adjacent blocks of the same by-name type swapped (the `k`-th such pair).
pub fn with_swapped_blocks(text: &str, k: usize) -> Option<(String, String)> {
    let lines = diskfault::split_lines(text);
    let blocks = diskfault::scan_blocks(&lines);
    let pairs: Vec<(usize, usize)> = (0..blocks.len().saturating_sub(1))
        .filter(|i| {
            let (a, b) = (&blocks[*i], &blocks[*i + 1]);
            a.btype == b.btype && UNRELATED_TYPES.contains(&a.btype.as_str()) && b.start == a.end + 1
        })
        .map(|i| (i, i + 1))
        .collect();
    if pairs.is_empty() {
        return None;
    }
    let (i, j) = pairs[k % pairs.len()];
    let (a, b) = (&blocks[i], &blocks[j]);
    let mut out: Vec<&str> = lines[..a.start].to_vec();
    out.extend_from_slice(&lines[b.start..=b.end]);
    out.extend_from_slice(&lines[a.start..=a.end]);
    out.extend_from_slice(&lines[b.end + 1..]);
    Some((out.join("\n"), format!("{} {:?} <-> {:?}", a.btype, a.name, b.name)))
}

/// Text with one by-name block that nothing refers to renamed (the `k`-th such block).
pub fn with_renamed_unreferenced(text: &str, k: usize) -> Option<(String, String, String)> {
    let lines = diskfault::split_lines(text);
    let blocks: Vec<_> = diskfault::scan_blocks(&lines)
        .into_iter()
        .filter(|b| UNRELATED_TYPES.contains(&b.btype.as_str()) && text.matches(&format!("\"{}\"", b.name)).count() == 1)
        .collect();
    if blocks.is_empty() {
        return None;
    }
    let b = &blocks[k % blocks.len()];
    let edited = diskfault::apply(text, &diskfault::Edit::DefRenamed { line: b.start })?;
    Some((edited, format!("{} {:?}", b.btype, b.name), b.name.clone()))
}

fn convert_any(kind: FileKind, text: &str) -> Result<Model, anyhow::Error> {
    match kind {
        FileKind::Ctehexml => disk::convert_ctehexml(text, 1),
        _ => disk::convert_cte(text),
    }
}

/// Execute one operation (already on the simulated thread).
pub fn exec_op(op: &Value) -> Value {
    let kind = op["op"].as_str().unwrap_or("");
    let r = contain(|| -> Result<Value, String> {
        match kind {
            "convert_dir" => {
                let dir = std::path::Path::new(&crate::panics::repo_root()).join(op["project"].as_str().unwrap_or(""));
                let extra = op["extra"].as_bool().unwrap_or(false);
                let m = hulc2model::collect_hulc_data(dir.to_string_lossy().as_ref(), extra, extra).map_err(|e| e.to_string())?;
                let js = m.as_json().map_err(|e| e.to_string())?;
                let mut v = json!({"hash": md5hex(js.as_bytes()), "len": js.len()});
                if op["want_text"] == true {
                    v["text"] = json!(js);
                }
                Ok(v)
            }
            "convert_dir_damaged" => {
                // a copy of the project directory in which one line of a side file is damaged,
                // converted with the result files; must not depend on the process (hash seed)
                let rel = op["file"].as_str().unwrap_or("");
                let (_, text) = disk::text_of(rel);
                let e: diskfault::Edit = serde_json::from_value(op["edit"].clone()).map_err(|e| e.to_string())?;
                let damaged = diskfault::apply(&text, &e).ok_or_else(|| "edit does not apply".to_string())?;
                let src = std::path::Path::new(&crate::panics::repo_root()).join(rel);
                let srcdir = src.parent().ok_or("no parent")?;
                let base = if std::path::Path::new("/dev/shm").is_dir() { std::path::PathBuf::from("/dev/shm") } else { std::env::temp_dir() };
                let dst = base.join(format!("ctesim.dmg.{}", std::process::id()));
                let _ = std::fs::remove_dir_all(&dst);
                std::fs::create_dir_all(&dst).map_err(|e| e.to_string())?;
                for f in std::fs::read_dir(srcdir).map_err(|e| e.to_string())? {
                    let f = f.map_err(|e| e.to_string())?.path();
                    if f.is_file() {
                        if f == src {
                            std::fs::write(dst.join(f.file_name().unwrap()), crate::corpus::string_to_latin1(&damaged)).map_err(|e| e.to_string())?;
                        } else {
                            std::fs::copy(&f, dst.join(f.file_name().unwrap())).map_err(|e| e.to_string())?;
                        }
                    }
                }
                let r = hulc2model::collect_hulc_data(dst.to_string_lossy().as_ref(), true, true);
                let _ = std::fs::remove_dir_all(&dst);
                let m = r.map_err(|e| e.to_string())?;
                let js = m.as_json().map_err(|e| e.to_string())?;
                Ok(json!({"hash": md5hex(js.as_bytes()), "len": js.len()}))
            }
            "convert_dir_copy" => {
                // the same project, copied to another place under another directory name
                let src = std::path::Path::new(&crate::panics::repo_root()).join(op["project"].as_str().unwrap_or(""));
                let base = std::env::temp_dir();
                let base = if std::path::Path::new("/dev/shm").is_dir() { std::path::PathBuf::from("/dev/shm") } else { base };
                let dst = base.join(format!("ctesim.copy.{}", std::process::id())).join(op["copy_name"].as_str().unwrap_or("copia"));
                let _ = std::fs::remove_dir_all(&dst);
                std::fs::create_dir_all(&dst).map_err(|e| e.to_string())?;
                // fs.second_project: the directory also holds a later-sorting working copy of the
                // project with another content (zz_variante.ctehexml), created before or after
                // the project file itself: the order in which the file system lists the two must
                // not decide which one is converted
                let second = op["second_project"].as_str().unwrap_or("");
                let mut files: Vec<std::path::PathBuf> = std::fs::read_dir(&src).map_err(|e| e.to_string())?.filter_map(|e| e.ok().map(|e| e.path())).filter(|p| p.is_file()).collect();
                files.sort();
                let write_variant = |dst: &std::path::Path| -> Result<(), String> {
                    if let Some(pf) = files.iter().find(|p| p.extension().map(|x| x == "ctehexml").unwrap_or(false)) {
                        let t = String::from_utf8_lossy(&std::fs::read(pf).map_err(|e| e.to_string())?).to_string();
                        let t = t.replacen("</nomPro>", " (variante)</nomPro>", 1).replacen("ABSORPTANCE   =            0.6", "ABSORPTANCE   =            0.9", 1);
                        std::fs::write(dst.join("zz_variante.ctehexml"), t).map_err(|e| e.to_string())?;
                    }
                    Ok(())
                };
                if second == "created_first" {
                    write_variant(&dst)?;
                }
                for f in &files {
                    std::fs::copy(f, dst.join(f.file_name().unwrap())).map_err(|e| e.to_string())?;
                }
                if second == "created_last" {
                    write_variant(&dst)?;
                }
                let extra = op["extra"].as_bool().unwrap_or(false);
                let r = hulc2model::collect_hulc_data(dst.to_string_lossy().as_ref(), extra, extra);
                let _ = std::fs::remove_dir_all(dst.parent().unwrap());
                let m = r.map_err(|e| e.to_string())?;
                let js = m.as_json().map_err(|e| e.to_string())?;
                Ok(json!({"hash": md5hex(js.as_bytes()), "len": js.len()}))
            }
            "convert_text" => {
                let (k, text) = disk::text_of(op["file"].as_str().unwrap_or(""));
                // optional variant of the project: one value of one definition changed
                let text = if op["edit"].is_object() {
                    let e: diskfault::Edit = serde_json::from_value(op["edit"].clone()).map_err(|e| e.to_string())?;
                    diskfault::apply(&text, &e).ok_or_else(|| "edit does not apply".to_string())?
                } else {
                    text
                };
                let m = convert_any(k, &text).map_err(|e| e.to_string())?;
                let js = m.as_json().map_err(|e| e.to_string())?;
                let mut v = json!({"hash": md5hex(js.as_bytes()), "len": js.len()});
                if op["want_text"] == true {
                    v["text"] = json!(js);
                }
                Ok(v)
            }
            "convert_edited" => {
                let (k, text) = disk::text_of(op["file"].as_str().unwrap_or(""));
                let base = convert_any(k, &text).map_err(|e| e.to_string())?;
                let base_ids = id_map(&serde_json::to_value(&base).map_err(|e| e.to_string())?);
                let kk = op["def"].as_u64().unwrap_or(0) as usize;
                let mut renamed: Option<String> = None;
                let (edited, what) = match op["mode"].as_str().unwrap_or("copy") {
                    "swap" => with_swapped_blocks(&text, kk).ok_or_else(|| "no eligible block".to_string())?,
                    "rename_unused" => {
                        let (t, w, n) = with_renamed_unreferenced(&text, kk).ok_or_else(|| "no eligible block".to_string())?;
                        renamed = Some(n);
                        (t, w)
                    }
                    "revalued_copy" => with_revalued_copy(&text, kk).ok_or_else(|| "no eligible block".to_string())?,
                    m if m.starts_with("near:") => with_near_name_copy(&text, kk, &m[5..]).ok_or_else(|| "no eligible block".to_string())?,
                    _ => with_unrelated_definition(&text, kk).ok_or_else(|| "no eligible block".to_string())?,
                };
                let m2 = convert_any(k, &edited).map_err(|e| format!("edited project no longer converts: {}", e))?;
                let ids2 = id_map(&serde_json::to_value(&m2).map_err(|e| e.to_string())?);
                let changed: Vec<String> = base_ids
                    .iter()
                    // the renamed element itself is not "existing and unrelated"
                    .filter(|(k, _)| renamed.as_ref().map(|n| !k.ends_with(&format!("/{}", n))).unwrap_or(true))
                    .filter(|(k, id)| ids2.get(*k) != Some(id))
                    .map(|(k, _)| k.clone())
                    .collect();
                Ok(json!({"hash": md5hex(format!("{:?}", changed).as_bytes()), "len": changed.len(),
                    "changed_n": changed.len(), "changed": changed.iter().take(5).collect::<Vec<_>>(), "added": format!("{}: {}", op["mode"].as_str().unwrap_or("copy"), what),
                    "collections_changed": changed.iter().map(|c| c.split('/').next().unwrap_or("").to_string()).collect::<std::collections::BTreeSet<_>>()}))
            }
            "indicators" => {
                let (v, _, _) = emodel::build_model_json(op);
                let txt = serde_json::to_string(&v).map_err(|e| e.to_string())?;
                let m = Model::from_json(&txt).map_err(|e| format!("does not load: {}", e))?;
                let ind = m.energy_indicators();
                let val = serde_json::to_value(&ind).map_err(|e| e.to_string())?;
                let s = serde_json::to_string(&val).map_err(|e| e.to_string())?;
                let mut out = json!({"hash": md5hex(s.as_bytes()), "len": s.len()});
                if op["want_text"] == true {
                    out["text"] = json!(s);
                }
                Ok(out)
            }
            "recompute" => {
                // a C14 step on a simulated thread: the step result travels inside the op result
                let r = emodel::recompute(op);
                let h = md5hex(serde_json::to_string(&r).unwrap_or_default().as_bytes());
                Ok(json!({"hash": h, "len": 0, "step": r}))
            }
            "refpair" => {
                let (k, text) = disk::text_of(op["project"].as_str().unwrap_or(""));
                let m = convert_any(k, &text).map_err(|e| e.to_string())?;
                let got: Value = serde_json::from_str(&m.as_json().map_err(|e| e.to_string())?).map_err(|e| e.to_string())?;
                let bytes = crate::corpus::read_rel(op["model"].as_str().unwrap_or("")).map_err(|e| e.to_string())?;
                let want: Value = serde_json::from_slice(&bytes).map_err(|e| e.to_string())?;
                let equal = got == want;
                let mut diffs: Vec<String> = vec![];
                if !equal {
                    diff_values("", &want, &got, &mut diffs);
                }
                Ok(json!({"hash": md5hex(serde_json::to_string(&got).unwrap_or_default().as_bytes()), "len": 0, "equal": equal,
                    "diffs": diffs.iter().take(5).collect::<Vec<_>>(),
                    "diff_paths": diffs.iter().map(|d| crate::modelfault::generic(d.split(' ').next().unwrap_or(""))).collect::<std::collections::BTreeSet<_>>().into_iter().take(8).collect::<Vec<_>>()}))
            }
            other => Err(format!("unknown op {}", other)),
        }
    });
    match r {
        Ok(Ok(mut v)) => {
            v["class"] = json!("ok");
            v
        }
        Ok(Err(e)) => json!({"class":"err","hash": md5hex(e.as_bytes()),"err": e.chars().take(120).collect::<String>()}),
        Err(p) => {
            let cls = if p.raw_msg.contains("ctesim: fuel exhausted") { "fuel" } else { "panic" };
            json!({"class": cls, "hash": "", "site": {"file": p.site.file, "function": p.site.function, "msg": p.site.msg}, "raw": p.raw_msg.chars().take(160).collect::<String>(), "line": p.line})
        }
    }
}

pub fn diff_values(path: &str, a: &Value, b: &Value, out: &mut Vec<String>) {
    if out.len() > 40 {
        return;
    }
    match (a, b) {
        (Value::Object(x), Value::Object(y)) => {
            for (k, v) in x {
                match y.get(k) {
                    Some(w) => diff_values(&format!("{}/{}", path, k), v, w, out),
                    None => out.push(format!("{}/{} missing", path, k)),
                }
            }
            for k in y.keys() {
                if !x.contains_key(k) {
                    out.push(format!("{}/{} added", path, k));
                }
            }
        }
        (Value::Array(x), Value::Array(y)) => {
            if x.len() != y.len() {
                out.push(format!("{} length {} vs {}", path, x.len(), y.len()));
            }
            for (i, (v, w)) in x.iter().zip(y.iter()).enumerate() {
                diff_values(&format!("{}/{}", path, i), v, w, out);
            }
        }
        _ => {
            if a != b {
                out.push(format!("{} {} vs {}", path, a, b));
            }
        }
    }
}

pub fn run(_ctx: &mut WorkerCtx, job: &Value) -> JobOutput {
    baton::install_hooks();
    let threads: Vec<Vec<Value>> = job["threads"]
        .as_array()
        .map(|a| a.iter().map(|t| t.as_array().cloned().unwrap_or_default()).collect())
        .unwrap_or_default();
    let strategy: Strategy = match serde_json::from_value(job["sched"].clone()) {
        Ok(s) => s,
        Err(e) => {
            return JobOutput {
                result: json!({"class":"harness_error","detail":format!("bad schedule descriptor: {}", e)}),
                tainted: false,
            }
        }
    };
    let sched_seed = job["sched_seed"].as_u64().unwrap_or(0);
    let fuel = job["fuel"].as_i64().unwrap_or(200_000_000);
    let results: Arc<Mutex<Vec<Vec<Value>>>> = Arc::new(Mutex::new(vec![vec![]; threads.len()]));
    // caches are per thread (thread_local): nothing is shared between simulated threads but
    // the process globals of the system under test
    let mut bodies: Vec<Box<dyn FnOnce() + Send + 'static>> = vec![];
    for (ti, ops) in threads.iter().enumerate() {
        let ops = ops.clone();
        let results = results.clone();
        bodies.push(Box::new(move || {
            // proc.slow_clock: the threads that run the system under test see a monotonic clock
            // that jumps forward at every read (never the simulator's own threads)
            crate::engines::set_mono_step(crate::engines::mono_step_from_env());
            for op in &ops {
                let r = exec_op(op);
                results.lock().unwrap_or_else(|e| e.into_inner())[ti].push(r);
            }
        }));
    }
    let report = baton::run_threads(bodies, strategy, sched_seed, fuel);
    let res = results.lock().unwrap_or_else(|e| e.into_inner()).clone();
    let any_panic = res.iter().flatten().any(|r| r["class"] == "panic" || r["class"] == "fuel");
    let mut out = json!({
        "class": "ran",
        "ops": res,
        "report": serde_json::to_value(&report).unwrap(),
    });
    if job["want_trace"] == true {
        out["trace"] = serde_json::to_value(&report.trace).unwrap();
        out["script"] = json!(baton::script_of(&report.trace));
    }
    JobOutput {
        result: out,
        tainted: report.deadlock || report.stuck_threads > 0 || any_panic || report.freerun,
    }
}
