//! Drives the real parsers and the real converter on a (possibly damaged) project file.

use crate::closure;
use crate::corpus::{self, FileKind};
use crate::diskfault::{self, Edit};
use crate::fdcap::capture_stdout;
use crate::panics::contain;
use crate::worker::{JobOutput, WorkerCtx};
use bemodel::Model;
use serde_json::{json, Value};
use std::cell::RefCell;
use std::collections::{BTreeMap, HashMap};
use std::convert::TryFrom;
use std::path::Path;

thread_local! {
    static TEXTS: RefCell<HashMap<String, (FileKind, String)>> = RefCell::new(HashMap::new());
    static CATALOG: RefCell<Option<hulc::bdl::DB>> = const { RefCell::new(None) };
    static BASELINES: RefCell<HashMap<String, Option<BTreeMap<String, bool>>>> = RefCell::new(HashMap::new());
}

pub fn kind_of(rel: &str) -> FileKind {
    let l = rel.to_lowercase();
    if l.ends_with(".ctehexml") {
        FileKind::Ctehexml
    } else if l.ends_with(".cte") {
        FileKind::Cte
    } else if l.ends_with(".tbl") {
        FileKind::Tbl
    } else {
        FileKind::Kyg
    }
}

pub fn text_of(rel: &str) -> (FileKind, String) {
    TEXTS.with(|t| {
        let mut t = t.borrow_mut();
        if let Some(v) = t.get(rel) {
            return v.clone();
        }
        let kind = kind_of(rel);
        let bytes = corpus::read_rel(rel).expect("corpus file");
        let text = match kind {
            FileKind::Ctehexml => String::from_utf8_lossy(&bytes).to_string(),
            _ => corpus::latin1_to_string(&bytes),
        };
        if t.len() > 8 {
            t.clear();
        }
        t.insert(rel.to_string(), (kind, text.clone()));
        (kind, text)
    })
}

fn catalog() -> hulc::bdl::DB {
    CATALOG.with(|c| {
        let mut c = c.borrow_mut();
        if c.is_none() {
            *c = Some(hulc::ctehexml::load_lider_catalog().expect("LIDER catalogue"));
        }
        c.as_ref().unwrap().clone()
    })
}

pub enum Conv {
    Model(Box<Model>),
    NoModel,
}

/// Convert a legacy LIDER text the way `parse_with_catalog` + `Model::try_from` would.
/// The same conversion through the API that does not merge the LIDER catalogue.
pub fn convert_no_catalog(kind: FileKind, text: &str) -> Result<Model, anyhow::Error> {
    let d = match kind {
        FileKind::Ctehexml => hulc::ctehexml::parse(text)?,
        _ => hulc::ctehexml::CtehexmlData {
            bdldata: hulc::bdl::Data::new(text)?,
            ..Default::default()
        },
    };
    Model::try_from(&d)
}

pub fn convert_cte(text: &str) -> Result<Model, anyhow::Error> {
    let mut data = hulc::bdl::Data::new(text)?;
    let cat = catalog();
    data.db.materials.extend(cat.materials);
    data.db.wallcons.extend(cat.wallcons);
    data.db.wincons.extend(cat.wincons);
    data.db.glasses.extend(cat.glasses);
    data.db.frames.extend(cat.frames);
    let d = hulc::ctehexml::CtehexmlData {
        bdldata: data,
        ..Default::default()
    };
    Model::try_from(&d)
}

pub fn convert_ctehexml(text: &str, level: u64) -> Result<Model, anyhow::Error> {
    let d = hulc::ctehexml::parse_with_catalog(text)?;
    let mut m = Model::try_from(&d)?;
    if level >= 2 {
        hulc2model::fix_ecdata_from_extra::<&Path>(&mut m, &None, &None)?;
    }
    Ok(m)
}

/// Optional links that are present, keyed by "collection/name/link".
fn optional_links(m: &Value) -> BTreeMap<String, bool> {
    let mut out = BTreeMap::new();
    let mut add = |coll: &str, path: &[&str], links: &[&str]| {
        for e in closure::collection(m, path) {
            let name = e.get("name").and_then(|v| v.as_str()).unwrap_or("");
            for l in links {
                let present = matches!(e.get(*l), Some(Value::String(_)));
                out.insert(format!("{}/{}/{}", coll, name, l), present);
            }
        }
    };
    add("spaces", &["spaces"], &["loads", "thermostat"]);
    add("walls", &["walls"], &["next_to"]);
    add(
        "loads",
        &["loads"],
        &["people_schedule", "equipment_schedule", "lighting_schedule"],
    );
    add("thermostats", &["thermostats"], &["temp_max", "temp_min"]);
    out
}

/// Name of the element every link points to, keyed by "collection/name/link" (elements whose
/// name is not unique in their collection are left out).
fn named_links(m: &Value) -> BTreeMap<String, String> {
    let mut out = BTreeMap::new();
    let name_of = |coll: &[&str], id: &str| -> Option<String> {
        closure::collection(m, coll)
            .iter()
            .find(|e| e.get("id").and_then(|v| v.as_str()) == Some(id))
            .and_then(|e| e.get("name").and_then(|v| v.as_str()).map(|s| s.to_string()))
    };
    let mut add = |coll: &str, path: &[&str], links: &[(&str, &[&str])]| {
        let els = closure::collection(m, path);
        for e in els {
            let name = e.get("name").and_then(|v| v.as_str()).unwrap_or("");
            if els.iter().filter(|x| x.get("name").and_then(|v| v.as_str()) == Some(name)).count() != 1 {
                continue;
            }
            for (l, target) in links {
                if let Some(Value::String(id)) = e.get(*l) {
                    if let Some(tn) = name_of(target, id) {
                        out.insert(format!("{}/{}/{}", coll, name, l), tn);
                    }
                }
            }
        }
    };
    // by-name references only: wall -> space and window -> wall are positional in BDL (a block
    // belongs to the SPACE / wall block it follows), so they legitimately follow a renamed or
    // removed parent
    add("walls", &["walls"], &[("cons", &["cons", "wallcons"]), ("next_to", &["spaces"])]);
    add("windows", &["windows"], &[("cons", &["cons", "wincons"])]);
    add("wincons", &["cons", "wincons"], &[("glass", &["cons", "glasses"]), ("frame", &["cons", "frames"])]);
    add("spaces", &["spaces"], &[("loads", &["loads"]), ("thermostat", &["thermostats"])]);
    out
}

/// What the project TEXT says about by-name links, in the key form of `named_links`: the
/// adjacent space of a wall, the construction of a window, the profiles of a space - only for
/// elements whose name occurs once and only when the text itself defines the target.
fn text_named_links(text: &str) -> BTreeMap<String, String> {
    let lines = diskfault::split_lines(text);
    let blocks = diskfault::scan_blocks(&lines);
    let mut count: BTreeMap<(String, String), usize> = BTreeMap::new();
    for b in &blocks {
        *count.entry((b.btype.clone(), b.name.clone())).or_insert(0) += 1;
    }
    let defined = |t: &str, n: &str| count.get(&(t.to_string(), n.to_string())).copied().unwrap_or(0) == 1;
    let mut out = BTreeMap::new();
    let walls = ["EXTERIOR-WALL", "INTERIOR-WALL", "UNDERGROUND-WALL", "ROOF"];
    for b in &blocks {
        let (coll, rules): (&str, &[(&str, &str, &str)]) = match b.btype.as_str() {
            // only a STANDARD partition has an adjacent space (an ADIABATIC one ignores NEXT-TO)
            "INTERIOR-WALL" if (b.start + 1..b.end.min(lines.len())).any(|i| lines[i].trim_start().starts_with("INT-WALL-TYPE") && lines[i].contains("STANDARD")) => {
                ("walls", &[("NEXT-TO", "next_to", "SPACE")])
            }
            "WINDOW" => ("windows", &[("GAP", "cons", "GAP")]),
            "SPACE" => ("spaces", &[("SPACE-CONDITIONS", "loads", "SPACE-CONDITIONS"), ("SYSTEM-CONDITIONS", "thermostat", "SYSTEM-CONDITIONS")]),
            _ => continue,
        };
        // the element name must be unique among the blocks that share its collection
        let same_coll = blocks
            .iter()
            .filter(|o| o.name == b.name && (o.btype == b.btype || (coll == "walls" && walls.contains(&o.btype.as_str()))))
            .count();
        if same_coll != 1 || b.name.is_empty() {
            continue;
        }
        for i in b.start + 1..b.end.min(lines.len()) {
            // attributes of nested blocks belong to them
            if diskfault::header_name(lines[i]).is_some() {
                break;
            }
            if let Some((k, v)) = lines[i].split_once('=') {
                let k = k.trim();
                let v = v.trim();
                for (attr, link, ttype) in rules {
                    if k == *attr && v.starts_with('"') && v.ends_with('"') && v.len() >= 2 {
                        let target = v[1..v.len() - 1].trim().to_string();
                        if defined(ttype, &target) {
                            out.insert(format!("{}/{}/{}", coll, b.name.trim(), link), target);
                        }
                    }
                }
            }
        }
    }
    out
}

thread_local! {
    static BASE_NAMED: std::cell::RefCell<std::collections::HashMap<String, Option<BTreeMap<String, String>>>> = Default::default();
}

fn baseline_named_links(rel: &str) -> Option<BTreeMap<String, String>> {
    if let Some(v) = BASE_NAMED.with(|b| b.borrow().get(rel).cloned()) {
        return v;
    }
    let (kind, text) = text_of(rel);
    let r = contain(|| match kind {
        FileKind::Ctehexml => convert_ctehexml(&text, 1),
        FileKind::Cte => convert_cte(&text),
        _ => Err(anyhow::anyhow!("no model")),
    });
    let v = match r {
        Ok(Ok(m)) => serde_json::to_value(&m).ok().map(|v| named_links(&v)),
        _ => None,
    };
    BASE_NAMED.with(|b| {
        let mut b = b.borrow_mut();
        if b.len() > 8 {
            b.clear();
        }
        b.insert(rel.to_string(), v.clone());
    });
    v
}

fn baseline_links(rel: &str) -> Option<BTreeMap<String, bool>> {
    if let Some(v) = BASELINES.with(|b| b.borrow().get(rel).cloned()) {
        return v;
    }
    let (kind, text) = text_of(rel);
    let r = contain(|| match kind {
        FileKind::Ctehexml => convert_ctehexml(&text, 1),
        FileKind::Cte => convert_cte(&text),
        _ => Err(anyhow::anyhow!("no model")),
    });
    let v = match r {
        Ok(Ok(m)) => serde_json::to_value(&m).ok().map(|v| optional_links(&v)),
        _ => None,
    };
    BASELINES.with(|b| b.borrow_mut().insert(rel.to_string(), v.clone()));
    v
}

fn short(s: &str, n: usize) -> String {
    let first = s.lines().next().unwrap_or("");
    let mut out: String = first.chars().take(n).collect();
    if first.chars().count() > n {
        out.push('…');
    }
    out
}

/// C02, data level: remove / rename one *referenced* definition in the merged database
/// (project definitions + LIDER catalogue) that `Model::try_from` reads, one at a time.
pub fn run_dbfaults(job: &Value) -> JobOutput {
    let rel = job["file"].as_str().unwrap_or("").to_string();
    let (kind, text) = text_of(&rel);
    let parsed = contain(|| match kind {
        FileKind::Ctehexml => hulc::ctehexml::parse_with_catalog(&text),
        _ => {
            let mut data = hulc::bdl::Data::new(&text)?;
            let cat = catalog();
            data.db.materials.extend(cat.materials);
            data.db.wallcons.extend(cat.wallcons);
            data.db.wincons.extend(cat.wincons);
            data.db.glasses.extend(cat.glasses);
            data.db.frames.extend(cat.frames);
            Ok(hulc::ctehexml::CtehexmlData { bdldata: data, ..Default::default() })
        }
    });
    let data = match parsed {
        Ok(Ok(d)) => d,
        _ => return JobOutput { result: json!({"class":"n/a","cases":[]}), tainted: false },
    };
    // names actually referenced by the project
    let db = &data.bdldata.db;
    let mut used_wallcons: Vec<String> = data.bdldata.walls.iter().map(|w| w.cons.clone()).collect();
    used_wallcons.sort();
    used_wallcons.dedup();
    let mut used_wincons: Vec<String> = data.bdldata.windows.iter().map(|w| w.cons.clone()).collect();
    used_wincons.sort();
    used_wincons.dedup();
    let mut used_mats: Vec<String> = used_wallcons.iter().filter_map(|c| db.wallcons.get(c)).flat_map(|c| c.material.clone()).collect();
    used_mats.sort();
    used_mats.dedup();
    let mut used_glass: Vec<String> = used_wincons.iter().filter_map(|c| db.wincons.get(c)).map(|c| c.glass.clone()).collect();
    used_glass.sort();
    used_glass.dedup();
    let mut used_frames: Vec<String> = used_wincons.iter().filter_map(|c| db.wincons.get(c)).map(|c| c.frame.clone()).collect();
    used_frames.sort();
    used_frames.dedup();
    let mut cases = vec![];
    let mut run_case = |coll: &str, name: &str, d: hulc::ctehexml::CtehexmlData| {
        let r = contain(|| Model::try_from(&d));
        let mut c = json!({"coll": coll, "name": name});
        match r {
            Err(p) => {
                c["class"] = json!("panic");
                c["site"] = serde_json::to_value(&p.site).unwrap();
            }
            Ok(Err(_)) => {
                c["class"] = json!("err");
            }
            Ok(Ok(m)) => {
                c["class"] = json!("ok");
                let v = serde_json::to_value(&m).unwrap_or(Value::Null);
                let broken = closure::closure_violations(&v);
                c["broken_kinds"] = json!(broken.iter().map(|b| format!("{}.{}:{}", b.coll, b.link, b.why)).collect::<std::collections::BTreeSet<_>>());
                c["broken"] = json!(broken.iter().take(3).map(|b| format!("{}.{} of {} -> {} ({})", b.coll, b.link, b.id, b.target, b.why)).collect::<Vec<_>>());
                let tb_ids: std::collections::HashSet<bemodel::Uuid> = m.thermal_bridges.iter().map(|t| t.id).collect();
                c["check_n"] = json!(bemodel::check(&m).into_iter().filter(|w| w.id.map(|i| !tb_ids.contains(&i)).unwrap_or(true)).count());
            }
        }
        cases.push(c);
    };
    for n in &used_mats {
        let mut d = data.clone();
        if d.bdldata.db.materials.remove(n).is_some() {
            run_case("materials", n, d);
        }
    }
    for n in &used_wallcons {
        let mut d = data.clone();
        if d.bdldata.db.wallcons.remove(n).is_some() {
            run_case("wallcons", n, d);
        }
    }
    for n in &used_wincons {
        let mut d = data.clone();
        if d.bdldata.db.wincons.remove(n).is_some() {
            run_case("wincons", n, d);
        }
    }
    for n in &used_glass {
        let mut d = data.clone();
        if d.bdldata.db.glasses.remove(n).is_some() {
            run_case("glasses", n, d);
        }
    }
    for n in &used_frames {
        let mut d = data.clone();
        if d.bdldata.db.frames.remove(n).is_some() {
            run_case("frames", n, d);
        }
    }
    JobOutput { result: json!({"class":"dbfaults","cases":cases}), tainted: false }
}

pub fn run(ctx: &mut WorkerCtx, job: &Value) -> JobOutput {
    if job["dbfaults"] == true {
        return run_dbfaults(job);
    }
    let rel = job["file"].as_str().unwrap_or("").to_string();
    let edit: Edit = serde_json::from_value(job["edit"].clone()).unwrap_or(Edit::Intact);
    let level = job["level"].as_u64().unwrap_or(1);
    let e2e = job["e2e"].as_bool().unwrap_or(false);
    let want_closure = job["closure"].as_bool().unwrap_or(false);
    let no_catalog = job["no_catalog"].as_bool().unwrap_or(false);
    let (kind, orig) = text_of(&rel);
    let damaged = match diskfault::apply(&orig, &edit) {
        Some(t) => t,
        None => {
            return JobOutput {
                result: json!({"class":"n/a"}),
                tainted: false,
            }
        }
    };
    let changed = damaged != orig;
    let hash = format!("{:x}", md5::compute(damaged.as_bytes()));
    let scratch = ctx.scratch.clone();
    let mut is_model = false;
    let t_start = std::time::Instant::now();
    let (res, out_bytes) = capture_stdout(|| {
        contain(|| -> Result<Option<Model>, anyhow::Error> {
            match (kind, e2e) {
                (FileKind::Ctehexml | FileKind::Cte, _) if no_catalog => convert_no_catalog(kind, &damaged).map(Some),
                (FileKind::Ctehexml, _) => convert_ctehexml(&damaged, level).map(Some),
                (FileKind::Cte, _) => convert_cte(&damaged).map(Some),
                (FileKind::Kyg, false) => hulc::kyg::parse(&damaged).map(|_| None),
                (FileKind::Tbl, false) => {
                    let p = scratch.join("NewBDL_O.tbl");
                    std::fs::write(&p, corpus::string_to_latin1(&damaged))?;
                    let r = hulc::tbl::parse(&p).map(|_| None);
                    let _ = std::fs::remove_file(&p);
                    r
                }
                (FileKind::Kyg, true) | (FileKind::Tbl, true) => {
                    // damaged side file next to the intact project it belongs to
                    let src = Path::new(&crate::panics::repo_root()).join(&rel);
                    let srcdir = src.parent().unwrap();
                    let dir = scratch.join("proj");
                    let _ = std::fs::remove_dir_all(&dir);
                    std::fs::create_dir_all(&dir)?;
                    for f in std::fs::read_dir(srcdir)? {
                        let f = f?.path();
                        let name = f.file_name().unwrap().to_string_lossy().to_string();
                        let lname = name.to_lowercase();
                        if lname.ends_with(".ctehexml")
                            || name == "KyGananciasSolares.txt"
                            || name == "NewBDL_O.tbl"
                        {
                            if f == src {
                                std::fs::write(dir.join(&name), corpus::string_to_latin1(&damaged))?;
                            } else {
                                std::fs::copy(&f, dir.join(&name))?;
                            }
                        }
                    }
                    let r = hulc2model::collect_hulc_data(dir.to_string_lossy().as_ref(), true, true)
                        .map(Some);
                    let _ = std::fs::remove_dir_all(&dir);
                    r
                }
            }
        })
    });
    // C02: was the touched definition referenced anywhere else in the file?
    let referenced = match &edit {
        Edit::DefRenamed { line } | Edit::DefRemoved { line } => {
            let lines = diskfault::split_lines(&orig);
            lines
                .get(*line)
                .and_then(|l| diskfault::quoted_spans(l).first().map(|(a, b)| format!("\"{}\"", &l[*a..*b])))
                .map(|q| orig.matches(q.as_str()).count() > 1)
                .unwrap_or(false)
        }
        Edit::RefRenamed { .. } => true,
        _ => false,
    };
    let mut result = json!({
        "changed": changed,
        "referenced": referenced,
        "hash": hash,
        "stdout_bytes": out_bytes.len(),
    });
    if !out_bytes.is_empty() {
        result["stdout_head"] = json!(short(&String::from_utf8_lossy(&out_bytes), 60));
    }
    let mut tainted = false;
    match res {
        Err(p) => {
            result["class"] = json!("panic");
            result["site"] = serde_json::to_value(&p.site).unwrap();
            result["line"] = json!(p.line);
            result["msg"] = json!(short(&p.raw_msg, 160));
            // a panic while a process-wide table lock was held would poison it
            if p.raw_msg.contains("PoisonError") {
                tainted = true;
            }
            if level >= 2 || e2e {
                // the indicator pass takes global locks: do not reuse the process
                tainted = true;
            }
        }
        Ok(Err(e)) => {
            result["class"] = json!("err");
            result["err"] = json!(short(&format!("{}", e), 100));
        }
        Ok(Ok(None)) => {
            result["class"] = json!("ok");
        }
        Ok(Ok(Some(m))) => {
            result["class"] = json!("ok");
            is_model = true;
            if job["roundtrip"] == true {
                // C01: the exported document must load as a model equal to the one the library
                // conversion yields (both as JSON values)
                let rt = contain(|| -> Result<bool, String> {
                    let js = m.as_json().map_err(|e| e.to_string())?;
                    let v1: Value = serde_json::from_str(&js).map_err(|e| e.to_string())?;
                    let m2 = Model::from_json(&js).map_err(|e| format!("does not load: {}", e))?;
                    let v2: Value = serde_json::from_str(&m2.as_json().map_err(|e| e.to_string())?).map_err(|e| e.to_string())?;
                    if v1 != v2 {
                        let mut d = vec![];
                        crate::engines::procsim::diff_values("", &v1, &v2, &mut d);
                        return Err(format!("differs at {}", d.first().cloned().unwrap_or_default()));
                    }
                    Ok(true)
                });
                match rt {
                    Ok(Ok(_)) => result["roundtrip"] = json!("equal"),
                    Ok(Err(e)) => result["roundtrip"] = json!(e.chars().take(140).collect::<String>()),
                    Err(p) => result["roundtrip"] = json!(format!("panic: {}", p.site.msg)),
                }
            }
            if want_closure {
                let r = contain(|| {
                    let v = serde_json::to_value(&m).expect("model to value");
                    let broken = closure::closure_violations(&v);
                    // the checker also reports negative bridge lengths, which is not a matter of
                    // references: only its link warnings count here
                    let tb_ids: std::collections::HashSet<bemodel::Uuid> = m.thermal_bridges.iter().map(|t| t.id).collect();
                    let warnings: Vec<bemodel::Warning> = bemodel::check(&m)
                        .into_iter()
                        .filter(|w| w.id.map(|i| !tb_ids.contains(&i)).unwrap_or(true))
                        .collect();
                    let lost: Vec<String> = match if job["no_lost_links"] == true { None } else { baseline_links(&rel) } {
                        Some(base) => {
                            let now = optional_links(&v);
                            now.iter()
                                .filter(|(k, present)| !**present && base.get(*k) == Some(&true))
                                .map(|(k, _)| k.clone())
                                .collect()
                        }
                        None => vec![],
                    };
                    // a name fault (definition renamed / removed, reference renamed) must never
                    // make an untouched element point at a different-named target: that would be a
                    // broken reference silently replaced by something else
                    let retargeted: Vec<String> = if job["retarget_oracle"] == true {
                        match baseline_named_links(&rel) {
                            Some(base) => named_links(&v)
                                .iter()
                                .filter(|(k, tn)| base.get(*k).map(|b| b != *tn).unwrap_or(false))
                                .map(|(k, tn)| format!("{} -> '{}' (intact: '{}')", k, tn, base[k]))
                                .collect(),
                            None => vec![],
                        }
                    } else {
                        vec![]
                    };
                    // the links the project text itself spells out must be in the model, and
                    // point at the element of that name
                    let mut retargeted = retargeted;
                    if job["closure"] == true && job["text_oracle"] == true {
                        let nl = named_links(&v);
                        let mut has_elem: std::collections::HashSet<String> = Default::default();
                        for (coll, path) in [("walls", vec!["walls"]), ("windows", vec!["windows"]), ("spaces", vec!["spaces"])] {
                            let els = closure::collection(&v, &path);
                            for e in els {
                                if let Some(n) = e.get("name").and_then(|x| x.as_str()) {
                                    if els.iter().filter(|x| x.get("name").and_then(|v| v.as_str()) == Some(n)).count() == 1 {
                                        has_elem.insert(format!("{}/{}", coll, n));
                                    }
                                }
                            }
                        }
                        for (k, want) in text_named_links(&damaged) {
                            let elem = k.rsplitn(2, '/').last().unwrap_or("").to_string();
                            if !has_elem.contains(&elem) {
                                continue;
                            }
                            match nl.get(&k) {
                                Some(got) if got.trim() == want.trim() => {}
                                Some(got) => retargeted.push(format!("{} -> '{}' (the project text says '{}')", k, got, want)),
                                None => retargeted.push(format!("{} -> nothing (the project text says '{}')", k, want)),
                            }
                        }
                    }
                    (broken, warnings.len(), lost, retargeted)
                });
                match r {
                    Ok((broken, nwarn, lost, retargeted)) => {
                        result["retargeted"] = json!(retargeted.iter().take(4).collect::<Vec<_>>());
                        result["retargeted_kinds"] = json!(retargeted
                            .iter()
                            .map(|k| {
                                let mut it = k.split('/');
                                let c = it.next().unwrap_or("");
                                let l = k.split(" -> ").next().unwrap_or("").rsplit('/').next().unwrap_or("");
                                format!("{}.{}", c, l)
                            })
                            .collect::<std::collections::BTreeSet<_>>());
                        result["broken_n"] = json!(broken.len());
                        result["broken"] = json!(broken
                            .iter()
                            .take(4)
                            .map(|b| format!("{}.{} of {} -> {} ({})", b.coll, b.link, b.id, b.target, b.why))
                            .collect::<Vec<_>>());
                        result["broken_kinds"] = json!(broken
                            .iter()
                            .map(|b| format!("{}.{}:{}", b.coll, b.link, b.why))
                            .collect::<std::collections::BTreeSet<_>>());
                        result["check_n"] = json!(nwarn);
                        result["lost_n"] = json!(lost.len());
                        if !lost.is_empty() {
                            let dl = diskfault::split_lines(&damaged);
                            let blocks = diskfault::scan_blocks(&dl);
                            result["n_space_conditions_blocks"] = json!(blocks.iter().filter(|b| b.btype == "SPACE-CONDITIONS").count());
                            result["n_system_conditions_blocks"] = json!(blocks.iter().filter(|b| b.btype == "SYSTEM-CONDITIONS").count());
                        }
                        result["lost"] = json!(lost.iter().take(4).collect::<Vec<_>>());
                        result["lost_kinds"] = json!(lost
                            .iter()
                            .map(|k| {
                                let mut it = k.split('/');
                                let c = it.next().unwrap_or("");
                                let l = k.rsplit('/').next().unwrap_or("");
                                format!("{}.{}", c, l)
                            })
                            .collect::<std::collections::BTreeSet<_>>());
                    }
                    Err(p) => {
                        result["class"] = json!("panic");
                        result["site"] = serde_json::to_value(&p.site).unwrap();
                        result["msg"] = json!(short(&p.raw_msg, 160));
                    }
                }
            }
        }
    }
    result["model"] = json!(is_model);
    // informational only (never used for a verdict)
    result["ms"] = json!(t_start.elapsed().as_millis() as u64);
    JobOutput { result, tainted }
}
