//! Edit-history simulation of the long-lived consumer process: (edit, recompute) steps on
//! real `bemodel::Model`s, healthy probes after every faulted step, checker ground truth.

use crate::closure;
use crate::modelfault::{self, MEdit};
use crate::panics::{contain, PanicInfo};
use crate::worker::{JobOutput, WorkerCtx};
use bemodel::Model;
use serde_json::{json, Value};
use std::cell::RefCell;
use std::collections::{BTreeMap, HashMap};
use std::convert::TryFrom;

thread_local! {
    static BASES: RefCell<HashMap<String, Value>> = RefCell::new(HashMap::new());
    static PROBE_REFS: RefCell<HashMap<String, Value>> = RefCell::new(HashMap::new());
}

/// Resolve a base model name to its JSON value.
///   "bemodel/tests/data/x.json"  shipped model file
///   "conv:<rel .ctehexml>"       converted from a shipped project
///   "min:<name>"                 minimal model built by editor operations
///   "empty"                      {}
pub fn base_value(name: &str) -> Value {
    if let Some(v) = BASES.with(|b| b.borrow().get(name).cloned()) {
        return v;
    }
    let v = if name == "empty" {
        json!({})
    } else if let Some(n) = name.strip_prefix("min:") {
        let mut v = json!({});
        for (k, ops) in modelfault::minimal_sessions() {
            if k == n {
                for (i, op) in ops.iter().enumerate() {
                    modelfault::apply(&mut v, op, i as u64);
                }
            }
        }
        v
    } else if let Some(rel) = name.strip_prefix("convx:") {
        // converted with the result files (--use-extra): the model carries overrides and `extra`
        let dir = std::path::Path::new(&crate::panics::repo_root()).join(rel);
        let m = hulc2model::collect_hulc_data(dir.to_string_lossy().as_ref(), true, true).expect("shipped project converts with extra files");
        serde_json::from_str(&m.as_json().unwrap()).unwrap()
    } else if let Some(rel) = name.strip_prefix("conv:") {
        let bytes = crate::corpus::read_rel(rel).expect("project file");
        let text = String::from_utf8_lossy(&bytes).to_string();
        let d = hulc::ctehexml::parse_with_catalog(&text).expect("shipped project parses");
        let m = Model::try_from(&d).expect("shipped project converts");
        serde_json::from_str(&m.as_json().unwrap()).unwrap()
    } else {
        let bytes = crate::corpus::read_rel(name).expect("model file");
        serde_json::from_slice(&bytes).expect("model file is JSON")
    };
    BASES.with(|b| b.borrow_mut().insert(name.to_string(), v.clone()));
    v
}

/// Names of non-finite floats in a Debug rendering (field name nearest before the value).
pub fn nonfinite_fields(dbg: &str) -> Vec<String> {
    let mut out = vec![];
    let mut last_field = String::new();
    let mut word = String::new();
    let mut in_str = false;
    let mut prev = ' ';
    let flush = |word: &mut String, next: char, last_field: &mut String, out: &mut Vec<String>| {
        if word.is_empty() {
            return;
        }
        if next == ':' {
            *last_field = word.clone();
        } else if word == "NaN" || word == "inf" || word == "-inf" {
            if !out.contains(last_field) {
                out.push(last_field.clone());
            }
        }
        word.clear();
    };
    for c in dbg.chars() {
        if in_str {
            if c == '"' && prev != '\\' {
                in_str = false;
            }
            prev = c;
            continue;
        }
        if c == '"' {
            flush(&mut word, c, &mut last_field, &mut out);
            in_str = true;
            prev = c;
            continue;
        }
        if c.is_alphanumeric() || c == '_' || c == '-' || c == '.' {
            word.push(c);
        } else {
            flush(&mut word, c, &mut last_field, &mut out);
        }
        prev = c;
    }
    flush(&mut word, ' ', &mut last_field, &mut out);
    out
}

fn poly_area(p: &Value) -> f64 {
    let pts: Vec<(f64, f64)> = p
        .as_array()
        .map(|a| {
            a.iter()
                .filter_map(|q| Some((q.get(0)?.as_f64()?, q.get(1)?.as_f64()?)))
                .collect()
        })
        .unwrap_or_default();
    if pts.len() < 3 {
        return 0.0;
    }
    let mut s = 0.0;
    for i in 0..pts.len() {
        let (x1, y1) = pts[i];
        let (x2, y2) = pts[(i + 1) % pts.len()];
        s += x1 * y2 - x2 * y1;
    }
    (s / 2.0).abs()
}

fn num(e: &Value, k: &str) -> Option<f64> {
    e.get(k).and_then(|v| v.as_f64())
}

/// Strict sanity predicate of C14-I3, evaluated on the re-serialised *loaded* model
/// (a key that serde skipped holds its default).  Err(reason) when the model is outside it.
pub fn sane(v: &Value) -> Result<(), String> {
    let br = closure::closure_violations(v);
    if let Some(b) = br.first() {
        return Err(format!("not closed: {}.{} {}", b.coll, b.link, b.why));
    }
    let mut bad: Option<String> = None;
    let mut p = String::new();
    closure::walk_numbers(v, &mut p, &mut |path, x| {
        if bad.is_none() && (!x.is_finite() || x.abs() > 1.0e6) {
            bad = Some(format!("number out of range at {}", path));
        }
    });
    if let Some(b) = bad {
        return Err(b);
    }
    let pos = |e: &Value, k: &str, what: &str| -> Result<(), String> {
        match num(e, k) {
            Some(x) if x > 1e-4 => Ok(()),
            _ => Err(format!("{}.{} not positive", what, k)),
        }
    };
    let nonneg_opt = |e: &Value, k: &str, what: &str| -> Result<(), String> {
        match e.get(k) {
            None | Some(Value::Null) => Ok(()),
            Some(x) if x.as_f64().map(|x| x >= 0.0).unwrap_or(false) => Ok(()),
            _ => Err(format!("{}.{} negative", what, k)),
        }
    };
    let unit_opt = |e: &Value, k: &str, what: &str| -> Result<(), String> {
        match e.get(k) {
            None | Some(Value::Null) => Ok(()),
            Some(x) if x.as_f64().map(|x| (0.0..=1.0).contains(&x)).unwrap_or(false) => Ok(()),
            _ => Err(format!("{}.{} outside [0,1]", what, k)),
        }
    };
    if let Some(meta) = v.get("meta") {
        for k in ["global_ventilation_l_s", "d_perim_insulation", "rn_perim_insulation", "num_dwellings"] {
            nonneg_opt(meta, k, "meta")?;
        }
        if let Some(x) = meta.get("n50_test_ach") {
            if !x.is_null() && x.as_f64().map(|x| x <= 0.0).unwrap_or(true) {
                return Err("meta.n50_test_ach not positive".into());
            }
        }
    }
    for s in closure::collection(v, &["spaces"]) {
        pos(s, "height", "space")?;
        if let Some(m) = s.get("multiplier") {
            if m.as_f64().map(|x| x <= 0.0).unwrap_or(true) {
                return Err("space.multiplier not positive".into());
            }
        }
        nonneg_opt(s, "n_v", "space")?;
        nonneg_opt(s, "illuminance", "space")?;
    }
    for (coll, what) in [("walls", "wall"), ("shades", "shade")] {
        for w in closure::collection(v, &[coll]) {
            let g = w.get("geometry").ok_or(format!("{} without geometry", what))?;
            if g.get("position").map(|p| p.is_null()).unwrap_or(true) {
                return Err(format!("{} without position", what));
            }
            if poly_area(g.get("polygon").unwrap_or(&Value::Null)) < 1e-3 {
                return Err(format!("{} polygon without area", what));
            }
            match num(g, "tilt") {
                Some(t) if (0.0..=180.0).contains(&t) => {}
                _ => return Err(format!("{} tilt outside [0,180]", what)),
            }
            match num(g, "azimuth") {
                Some(t) if (-360.0..=360.0).contains(&t) => {}
                None => {}
                _ => return Err(format!("{} azimuth outside [-360,360]", what)),
            }
        }
    }
    for w in closure::collection(v, &["windows"]) {
        let g = w.get("geometry").ok_or("window without geometry")?;
        pos(g, "width", "window")?;
        pos(g, "height", "window")?;
        nonneg_opt(g, "setback", "window")?;
        if g.get("position").map(|p| p.is_null()).unwrap_or(true) {
            return Err("window without position".into());
        }
    }
    for tb in closure::collection(v, &["thermal_bridges"]) {
        nonneg_opt(tb, "l", "bridge")?;
        nonneg_opt(tb, "psi", "bridge")?;
    }
    for c in closure::collection(v, &["cons", "wallcons"]) {
        unit_opt(c, "absorptance", "wallcons")?;
        for l in c.get("layers").and_then(|l| l.as_array()).cloned().unwrap_or_default() {
            pos(&l, "e", "layer")?;
        }
    }
    for m in closure::collection(v, &["cons", "materials"]) {
        if m.get("resistance").is_some() {
            pos(m, "resistance", "material")?;
        } else {
            pos(m, "conductivity", "material")?;
            pos(m, "density", "material")?;
            pos(m, "specific_heat", "material")?;
        }
        nonneg_opt(m, "vapour_diff", "material")?;
    }
    for g in closure::collection(v, &["cons", "glasses"]) {
        pos(g, "u_value", "glass")?;
        unit_opt(g, "g_gln", "glass")?;
    }
    for f in closure::collection(v, &["cons", "frames"]) {
        pos(f, "u_value", "frame")?;
        unit_opt(f, "absorptivity", "frame")?;
    }
    for c in closure::collection(v, &["cons", "wincons"]) {
        unit_opt(c, "f_f", "wincons")?;
        nonneg_opt(c, "delta_u", "wincons")?;
        unit_opt(c, "g_glshwi", "wincons")?;
        nonneg_opt(c, "c_100", "wincons")?;
    }
    for l in closure::collection(v, &["loads"]) {
        for k in ["area_per_person", "people_sensible", "people_latent", "equipment", "lighting"] {
            nonneg_opt(l, k, "loads")?;
        }
    }
    for y in closure::collection(v, &["schedules", "year"]) {
        let s: u64 = y
            .get("values")
            .and_then(|v| v.as_array())
            .map(|a| a.iter().filter_map(|p| p.get(1).and_then(|n| n.as_u64())).sum())
            .unwrap_or(0);
        if s != 365 {
            return Err("yearly schedule does not cover 365 days".into());
        }
    }
    for w in closure::collection(v, &["schedules", "week"]) {
        let s: u64 = w
            .get("values")
            .and_then(|v| v.as_array())
            .map(|a| a.iter().filter_map(|p| p.get(1).and_then(|n| n.as_u64())).sum())
            .unwrap_or(0);
        if s != 7 {
            return Err("weekly schedule does not cover 7 days".into());
        }
    }
    for d in closure::collection(v, &["schedules", "day"]) {
        if d.get("values").and_then(|v| v.as_array()).map(|a| a.len()).unwrap_or(0) != 24 {
            return Err("daily schedule without 24 values".into());
        }
    }
    if let Some(ov) = v.get("overrides") {
        let mut neg = false;
        let mut p = String::new();
        closure::walk_numbers(ov, &mut p, &mut |_, x| {
            if x < 0.0 {
                neg = true;
            }
        });
        if neg {
            return Err("negative override".into());
        }
    }
    Ok(())
}

fn site_json(p: &PanicInfo) -> Value {
    json!({"file": p.site.file, "function": p.site.function, "msg": p.site.msg, "code": p.site.code, "line": p.line, "raw": p.raw_msg.chars().take(160).collect::<String>()})
}

/// Indicators of a healthy probe model as a JSON value (the isolated reference is the
/// first such computation in this process, made before any faulted step).
fn probe_value(name: &str) -> Result<Value, PanicInfo> {
    let v = base_value(name);
    let txt = serde_json::to_string(&v).unwrap();
    contain(|| {
        let m = Model::from_json(&txt).expect("probe model loads");
        let ind = m.energy_indicators();
        serde_json::to_value(&ind).expect("indicators to value")
    })
}

pub fn ensure_probe_ref(name: &str) -> Result<(), PanicInfo> {
    if PROBE_REFS.with(|p| p.borrow().contains_key(name)) {
        return Ok(());
    }
    let v = probe_value(name)?;
    PROBE_REFS.with(|p| p.borrow_mut().insert(name.to_string(), v));
    Ok(())
}

pub fn build_model_json(step: &Value) -> (Value, usize, Vec<String>) {
    let base = step["base"].as_str().unwrap_or("empty");
    let mut v = base_value(base);
    let edits: Vec<MEdit> = serde_json::from_value(step["edits"].clone()).unwrap_or_default();
    let mut applied = 0;
    let mut kinds = vec![];
    for (i, e) in edits.iter().enumerate() {
        if modelfault::apply(&mut v, e, i as u64 + 1) {
            applied += 1;
            kinds.push(e.kind_name().to_string());
        }
    }
    (v, applied, kinds)
}

fn c14_step(step: &Value, probe: &str, tainted: &mut bool) -> Value {
    // the healthy computation that follows is, when possible, the intact version of the very
    // model that was just edited (the user undoes the edit), otherwise the job's probe model
    let probe = step["probe_base"].as_str().unwrap_or(probe);
    let mut r = recompute(step);
    let faulted_failed = r["i1"] == "panic" || r["i1"] == "fuel";
    if r["class"] != "loaded" {
        return r;
    }
    // I2 isolation: the very next healthy computation must be served and be right
    // (inside an editor session only the last step is followed by the probe, so that
    // consecutive recomputes of related models really are consecutive)
    if !probe.is_empty() && step["probe"] != false {
        let pv = probe_value(probe);
        let reference = PROBE_REFS.with(|p| p.borrow().get(probe).cloned());
        match (pv, reference) {
            (Ok(v), Some(rf)) => {
                if v == rf {
                    r["probe"] = json!("equal");
                } else {
                    r["probe"] = json!("differs");
                    *tainted = true;
                }
            }
            (Err(p), _) => {
                r["probe"] = json!("panic");
                r["probe_site"] = site_json(&p);
                *tainted = true;
            }
            (Ok(_), None) => {
                r["probe"] = json!("no_reference");
            }
        }
    }
    if faulted_failed {
        // whatever the probe said, do not reuse a process in which a computation unwound
        *tainted = true;
    }
    r
}

/// One (edit, recompute) step: I1 totality and I3 finiteness of the recompute itself.
pub fn recompute(step: &Value) -> Value {
    let (v, applied, kinds) = build_model_json(step);
    let txt = serde_json::to_string(&v).unwrap();
    let hash = format!("{:x}", md5::compute(txt.as_bytes()));
    let mut r = json!({"applied": applied, "kinds": kinds, "hash": hash});
    let n_edits = step["edits"].as_array().map(|a| a.len()).unwrap_or(0);
    if applied < n_edits && step["require_all"].as_bool().unwrap_or(true) {
        r["class"] = json!("n/a");
        return r;
    }
    // precondition of the property: the model loads from JSON
    let loaded = contain(|| Model::from_json(&txt));
    let model = match loaded {
        Ok(Ok(m)) => m,
        Ok(Err(_)) => {
            r["class"] = json!("does_not_load");
            return r;
        }
        Err(p) => {
            r["class"] = json!("load_panics");
            r["i1"] = site_json(&p);
            return r;
        }
    };
    r["class"] = json!("loaded");
    // I1 totality
    let res = contain(|| model.energy_indicators());
    match &res {
        Ok(ind) => {
            r["i1"] = json!("returned");
            // behaviour signature: which kinds of warnings came back (used to give rare behaviours
            // their share of the threaded histories)
            let mut sig: Vec<String> = ind.warnings.iter().map(|w| format!("{:?}:{}", w.level, crate::panics::skeleton(&w.msg))).collect();
            sig.sort();
            sig.dedup();
            r["warn_sig"] = json!(sig.join("|"));
            // I3 finiteness, only inside the strict sanity predicate
            let reser = serde_json::to_value(&model).unwrap_or(Value::Null);
            match sane(&reser) {
                Ok(()) => {
                    r["sane"] = json!(true);
                    let chk = contain(|| {
                        let dbg = format!(
                            "{:?} {:?} {:?} {:?} area_ref: {:?} compactness: {:?} vol_env_net: {:?} vol_env_gross: {:?}",
                            ind.props, ind.K_data, ind.q_soljul_data, ind.n50_data, ind.area_ref, ind.compactness, ind.vol_env_net, ind.vol_env_gross
                        );
                        let nf = nonfinite_fields(&dbg);
                        let js = ind.as_json();
                        let back = match &js {
                            Ok(s) => serde_json::from_str::<bemodel::energy::EnergyIndicators>(s)
                                .map(|_| ())
                                .map_err(|e| e.to_string()),
                            Err(e) => Err(format!("as_json failed: {}", e)),
                        };
                        (nf, back)
                    });
                    match chk {
                        Ok((nf, back)) => {
                            r["nonfinite"] = json!(nf);
                            if let Err(e) = back {
                                r["roundtrip_err"] = json!(e.chars().take(120).collect::<String>());
                            }
                        }
                        Err(p) => {
                            r["i3_panic"] = site_json(&p);
                        }
                    }
                }
                Err(why) => {
                    r["sane"] = json!(false);
                    r["not_sane_because"] = json!(why);
                }
            }
        }
        Err(p) => {
            r["i1"] = json!(if p.raw_msg.contains("ctesim: fuel exhausted") { "fuel" } else { "panic" });
            r["i1_site"] = site_json(p);
        }
    }
    r
}

fn warn_ids(ws: &[bemodel::Warning]) -> Vec<String> {
    let mut v: Vec<String> = ws
        .iter()
        .map(|w| w.id.map(|i| i.to_string()).unwrap_or_else(|| "<none>".into()))
        .collect();
    v.sort();
    v
}

fn c15_step(step: &Value, with_indicators: bool, tainted: &mut bool) -> Value {
    let (v, applied, kinds) = build_model_json(step);
    let txt = serde_json::to_string(&v).unwrap();
    let hash = format!("{:x}", md5::compute(txt.as_bytes()));
    let mut r = json!({"applied": applied, "kinds": kinds, "hash": hash});
    let n_edits = step["edits"].as_array().map(|a| a.len()).unwrap_or(0);
    if applied < n_edits && step["require_all"].as_bool().unwrap_or(true) {
        r["class"] = json!("n/a");
        return r;
    }
    let model = match contain(|| Model::from_json(&txt)) {
        Ok(Ok(m)) => m,
        _ => {
            r["class"] = json!("does_not_load");
            return r;
        }
    };
    r["class"] = json!("loaded");
    // ground truth from the *current* model, not from the fault list
    let reser: Value = serde_json::from_str(&model.as_json().unwrap_or_default()).unwrap_or(Value::Null);
    let expected = closure::expected_checker_warnings(&reser);
    let mut exp_ids: Vec<String> = expected.iter().map(|(id, _)| id.clone()).collect();
    exp_ids.sort();
    let before = model.as_json().unwrap_or_default();
    let got = contain(|| bemodel::check(&model));
    let after = model.as_json().unwrap_or_default();
    r["expected_n"] = json!(exp_ids.len());
    match got {
        Ok(ws) => {
            let ids = warn_ids(&ws);
            r["actual_n"] = json!(ids.len());
            if ids != exp_ids {
                // describe the difference by link kind
                let mut exp_count: BTreeMap<String, i64> = BTreeMap::new();
                for i in &exp_ids {
                    *exp_count.entry(i.clone()).or_insert(0) += 1;
                }
                for i in &ids {
                    *exp_count.entry(i.clone()).or_insert(0) -= 1;
                }
                let mut missing: Vec<String> = vec![];
                let mut surplus: Vec<String> = vec![];
                for (id, d) in &exp_count {
                    if *d > 0 {
                        let kinds: Vec<&str> = expected.iter().filter(|(i, _)| i == id).map(|(_, k)| k.as_str()).collect();
                        missing.push(kinds.join("+"));
                    } else if *d < 0 {
                        let kinds: Vec<&str> = expected.iter().filter(|(i, _)| i == id).map(|(_, k)| k.as_str()).collect();
                        surplus.push(if kinds.is_empty() { "unbroken element".to_string() } else { format!("extra for {}", kinds.join("+")) });
                    }
                }
                missing.sort();
                missing.dedup();
                surplus.sort();
                surplus.dedup();
                r["mismatch"] = json!({"missing": missing, "surplus": surplus});
            }
            if before != after {
                r["check_modified_model"] = json!(true);
            }
            if with_indicators {
                match contain(|| model.energy_indicators()) {
                    Ok(ind) => {
                        let a = serde_json::to_value(&ind.warnings).unwrap_or(Value::Null);
                        let b = serde_json::to_value(&ws).unwrap_or(Value::Null);
                        r["ind_warnings_equal"] = json!(a == b);
                    }
                    Err(_) => {
                        r["ind_warnings_equal"] = Value::Null;
                        *tainted = true;
                    }
                }
            }
        }
        Err(p) => {
            r["check_panics"] = site_json(&p);
        }
    }
    r
}

pub fn run(_ctx: &mut WorkerCtx, job: &Value) -> JobOutput {
    let mode = job["mode"].as_str().unwrap_or("c14");
    let probe = job["probe"].as_str().unwrap_or("").to_string();
    let mut tainted = false;
    let mut results = vec![];
    let mut probe_ref_failed: Option<Value> = None;
    let steps = job["steps"].as_array().cloned().unwrap_or_default();
    if mode == "c14" && !probe.is_empty() {
        // isolated references first, before any faulted step runs in this process
        let mut probes: Vec<String> = vec![probe.clone()];
        for st in &steps {
            if let Some(pb) = st["probe_base"].as_str() {
                if !probes.iter().any(|p| p == pb) {
                    probes.push(pb.to_string());
                }
            }
        }
        for pb in probes {
            if let Err(p) = ensure_probe_ref(&pb) {
                // the healthy model itself fails in a fresh process: reported as such
                probe_ref_failed = Some(site_json(&p));
                tainted = true;
            }
        }
    }
    for step in &steps {
        if tainted {
            results.push(json!({"class":"skipped_after_taint"}));
            continue;
        }
        let r = match mode {
            "c15" => c15_step(step, job["with_indicators"].as_bool().unwrap_or(false), &mut tainted),
            _ => c14_step(step, &probe, &mut tainted),
        };
        results.push(r);
    }
    JobOutput {
        result: json!({"class":"steps","steps":results,"probe_ref_failed":probe_ref_failed}),
        tainted,
    }
}
