//! The simulated stdout device for in-process calls: fd 1 is redirected to a memfd around a
//! library call, Rust's own stdout buffer is flushed, and the bytes are read back.
//! Only used in workers where no other thread writes to fd 1.

use std::io::{Read, Seek, SeekFrom, Write};
use std::os::unix::io::FromRawFd;

pub fn capture_stdout<T>(f: impl FnOnce() -> T) -> (T, Vec<u8>) {
    unsafe {
        let _ = std::io::stdout().flush();
        let name = b"ctesim-stdout\0";
        let mfd = libc::memfd_create(name.as_ptr() as *const libc::c_char, 0);
        if mfd < 0 {
            return (f(), Vec::new());
        }
        let saved = libc::dup(1);
        libc::dup2(mfd, 1);
        // the closure may panic: restore fd 1 in every case
        struct Restore {
            saved: i32,
        }
        impl Drop for Restore {
            fn drop(&mut self) {
                unsafe {
                    let _ = std::io::stdout().flush();
                    if self.saved >= 0 {
                        libc::dup2(self.saved, 1);
                        libc::close(self.saved);
                    } else {
                        libc::close(1);
                    }
                }
            }
        }
        let r = {
            let _g = Restore { saved };
            std::panic::catch_unwind(std::panic::AssertUnwindSafe(f))
        };
        let mut file = std::fs::File::from_raw_fd(mfd);
        let mut buf = Vec::new();
        let _ = file.seek(SeekFrom::Start(0));
        let _ = file.read_to_end(&mut buf);
        match r {
            Ok(v) => (v, buf),
            Err(p) => std::panic::resume_unwind(p),
        }
    }
}
