//! Structural faults and editor operations on the JSON tree of a model.

use crate::closure::{self, NIL};
use crate::rng::Rng;
use serde::{Deserialize, Serialize};
use serde_json::{json, Value};

#[derive(Serialize, Deserialize, Clone, Debug, PartialEq)]
#[serde(tag = "kind")]
pub enum MEdit {
    KeyDeleted { ptr: String },
    ItemDeleted { ptr: String },
    ArrayEmptied { ptr: String },
    ArrayDuplicated { ptr: String },
    ArrayTruncated { ptr: String },
    /// to: "nil" | "fresh" | "other" (an id that exists, but in another collection)
    IdRedirected { ptr: String, to: String },
    NumberZeroed { ptr: String },
    NumberNegated { ptr: String },
    /// float noise: the number moves by `delta` (an editor that derives values from geometry
    /// produces 359.99998 or -0.000001 where the file had 0)
    NumberNudged { ptr: String, delta: f64 },
    // ---- editor operations (the way the web editor builds a model element by element)
    AddSpace { n: u32 },
    AddWallCons { n: u32 },
    AddWinCons { n: u32 },
    /// space / cons: index into the current collections, None = nil id (nothing to link yet)
    AddWall { n: u32, space: Option<usize>, cons: Option<usize>, with_geometry: bool, bounds: String, tilt: f32 },
    AddWindow { n: u32, wall: Option<usize>, cons: Option<usize>, setback: f32, with_position: bool },
    AddShade { n: u32 },
    AddBridge { n: u32, l: f32 },
    DeleteElement { coll: String, idx: usize },
    SetClimate { zone: String },
    SetMeta { key: String, value: Value },
    /// the editor places (or moves) a window inside its wall
    PlaceWindow { idx: usize, x: f32, y: f32 },
    /// pool variants (not faults): a value replaced, every name changed with ids kept,
    /// every id changed (consistently) with names kept
    SetValue { ptr: String, value: Value },
    /// insert (or replace) a member of the object at `ptr`
    SetKey { ptr: String, key: String, value: Value },
    ScaleNumber { ptr: String, factor: f64 },
    RenameAllNames,
    RemapAllIds,
    /// the editor moves the whole building vertically by `dz` (spaces, walls, shades); with
    /// `walls_to_ground`, windowless vertical exterior walls of spaces that end up below ground
    /// become ground-contact walls
    MoveBuildingZ { dz: f64, walls_to_ground: bool },
    /// editor operation on a whole collection: every element of the array at `ptr` gets
    /// `key` = `value` (all spaces uninhabited, all exterior walls adiabatic, ...); with
    /// `only_if` = (key, value) only the elements that currently have that member
    SetAll { ptr: String, key: String, value: Value, only_if: Option<(String, Value)> },
    /// every number found at the generic pointer `gptr` (array indices written as `*`) is
    /// multiplied by `factor` (all windows ten times wider, all layers a tenth as thick, ...)
    ScaleAll { gptr: String, factor: f64 },
    /// the first element of collection `b` gets the id of the first element of collection `a`
    /// and every link to it follows: ids stay unique inside each collection and the model stays
    /// closed, but one id now exists in two collections
    ShareIdAcross { a: String, b: String },
}

impl MEdit {
    pub fn kind_name(&self) -> &'static str {
        match self {
            MEdit::KeyDeleted { .. } => "model.key_deleted",
            MEdit::ItemDeleted { .. } => "model.item_deleted",
            MEdit::ArrayEmptied { .. } => "model.array_emptied",
            MEdit::ArrayDuplicated { .. } => "model.array_duplicated",
            MEdit::ArrayTruncated { .. } => "model.array_truncated",
            MEdit::IdRedirected { .. } => "model.id_redirected",
            MEdit::NumberZeroed { .. } => "model.number_zeroed",
            MEdit::NumberNegated { .. } => "model.number_negated",
            MEdit::NumberNudged { .. } => "model.number_nudged",
            MEdit::AddSpace { .. } => "edit.add_space",
            MEdit::AddWallCons { .. } | MEdit::AddWinCons { .. } => "edit.add_cons",
            MEdit::AddWall { .. } => "edit.add_wall",
            MEdit::AddWindow { .. } => "edit.add_window",
            MEdit::AddShade { .. } => "edit.add_shade",
            MEdit::AddBridge { .. } => "edit.add_bridge",
            MEdit::DeleteElement { .. } => "edit.delete_element",
            MEdit::SetClimate { .. } => "edit.set_climate",
            MEdit::SetMeta { .. } => "edit.set_meta",
            MEdit::PlaceWindow { .. } => "edit.place_window",
            MEdit::ScaleNumber { factor, .. } if *factor >= 1.0e6 => "model.number_huge",
            MEdit::ScaleNumber { factor, .. } if *factor <= 1.0e-6 => "model.number_tiny",
            MEdit::SetValue { .. } | MEdit::ScaleNumber { .. } => "variant.value",
            MEdit::SetKey { .. } => "model.key_added",
            MEdit::RenameAllNames => "variant.names",
            MEdit::RemapAllIds => "variant.ids",
            MEdit::MoveBuildingZ { .. } => "edit.move_building_z",
            MEdit::SetAll { .. } => "edit.set_all",
            MEdit::ScaleAll { .. } => "edit.scale_all",
            MEdit::ShareIdAcross { a, .. } if a == "nil" => "variant.nil_id_element",
            MEdit::ShareIdAcross { .. } => "variant.id_shared_across_collections",
        }
    }
    /// pointer with array indices replaced by `*` (stratification / grouping)
    pub fn generic_ptr(&self) -> String {
        let p = match self {
            MEdit::KeyDeleted { ptr }
            | MEdit::ItemDeleted { ptr }
            | MEdit::ArrayEmptied { ptr }
            | MEdit::ArrayDuplicated { ptr }
            | MEdit::ArrayTruncated { ptr }
            | MEdit::IdRedirected { ptr, .. }
            | MEdit::NumberZeroed { ptr }
            | MEdit::NumberNegated { ptr }
            | MEdit::NumberNudged { ptr, .. }
            | MEdit::ScaleNumber { ptr, .. } => ptr.clone(),
            _ => String::new(),
        };
        generic(&p)
    }
}

pub fn generic(ptr: &str) -> String {
    ptr.split('/')
        .map(|t| if !t.is_empty() && t.chars().all(|c| c.is_ascii_digit()) { "*" } else { t })
        .collect::<Vec<_>>()
        .join("/")
}

pub fn is_uuid(s: &str) -> bool {
    let b = s.as_bytes();
    b.len() == 36
        && b.iter().enumerate().all(|(i, c)| match i {
            8 | 13 | 18 | 23 => *c == b'-',
            _ => c.is_ascii_hexdigit(),
        })
}

pub fn fresh_id(n: u64) -> String {
    format!("f{:07x}-0000-4000-8000-{:012x}", (n >> 32) as u32 & 0xfff_ffff, n & 0xffff_ffff_ffff)
}

fn split_ptr(ptr: &str) -> Option<(&str, &str)> {
    let i = ptr.rfind('/')?;
    Some((&ptr[..i], &ptr[i + 1..]))
}

fn unescape(tok: &str) -> String {
    tok.replace("~1", "/").replace("~0", "~")
}

/// An id that exists in the model but in a collection other than the one `ptr` should
/// point into (deterministic: first id of the first other non-empty collection).
fn other_collection_id(m: &Value, ptr: &str) -> Option<String> {
    let target = link_target_collection(ptr);
    for (name, path) in closure::COLLECTIONS {
        if Some(*name) == target {
            continue;
        }
        if let Some(e) = closure::collection(m, path).first() {
            if let Some(id) = e.get("id").and_then(|v| v.as_str()) {
                return Some(id.to_string());
            }
        }
    }
    None
}

/// Which collection a link at this pointer is meant to point into (None for ids of elements).
pub fn link_target_collection(ptr: &str) -> Option<&'static str> {
    let g = generic(ptr);
    Some(match g.as_str() {
        "/walls/*/space" | "/walls/*/next_to" => "spaces",
        "/walls/*/cons" => "wallcons",
        "/windows/*/wall" => "walls",
        "/windows/*/cons" => "wincons",
        "/cons/wallcons/*/layers/*/material" => "materials",
        "/cons/wincons/*/glass" => "glasses",
        "/cons/wincons/*/frame" => "frames",
        "/spaces/*/loads" => "loads",
        "/spaces/*/thermostat" => "thermostats",
        "/loads/*/people_schedule" | "/loads/*/equipment_schedule" | "/loads/*/lighting_schedule" => "year",
        "/thermostats/*/temp_max" | "/thermostats/*/temp_min" => "year",
        "/schedules/year/*/values/*/0" => "week",
        "/schedules/week/*/values/*/0" => "day",
        _ => return None,
    })
}

/// The meta block a new model gets from the editor (Meta::default() of the library)
fn default_meta() -> Value {
    json!({"name": "Nombre del proyecto", "is_new_building": true, "is_dwelling": true, "num_dwellings": 1, "climate": "D3"})
}

fn id_at(m: &Value, coll: &str, idx: Option<usize>) -> String {
    let path = closure::COLLECTIONS.iter().find(|c| c.0 == coll).unwrap().1;
    idx.and_then(|i| {
        let c = closure::collection(m, path);
        if c.is_empty() {
            None
        } else {
            c[i % c.len()].get("id").and_then(|v| v.as_str()).map(|s| s.to_string())
        }
    })
    .unwrap_or_else(|| NIL.to_string())
}

fn push_to(m: &mut Value, path: &[&str], elem: Value) {
    if !m.is_object() {
        *m = json!({});
    }
    let mut cur = m;
    for (i, p) in path.iter().enumerate() {
        let last = i + 1 == path.len();
        let o = cur.as_object_mut().unwrap();
        if !o.contains_key(*p) {
            o.insert(p.to_string(), if last { json!([]) } else { json!({}) });
        }
        cur = o.get_mut(*p).unwrap();
    }
    if let Some(a) = cur.as_array_mut() {
        a.push(elem);
    }
}

/// Apply one edit.  Returns false when it does not apply to this tree.
pub fn apply(m: &mut Value, e: &MEdit, serial: u64) -> bool {
    match e {
        MEdit::KeyDeleted { ptr } => {
            let (pp, k) = match split_ptr(ptr) {
                Some(x) => x,
                None => return false,
            };
            match m.pointer_mut(pp).and_then(|p| p.as_object_mut()) {
                Some(o) => o.remove(&unescape(k)).is_some(),
                None => false,
            }
        }
        MEdit::ItemDeleted { ptr } => {
            let (pp, k) = match split_ptr(ptr) {
                Some(x) => x,
                None => return false,
            };
            let i: usize = match k.parse() {
                Ok(i) => i,
                Err(_) => return false,
            };
            match m.pointer_mut(pp).and_then(|p| p.as_array_mut()) {
                Some(a) if i < a.len() => {
                    a.remove(i);
                    true
                }
                _ => false,
            }
        }
        MEdit::ArrayEmptied { ptr } => match m.pointer_mut(ptr).and_then(|p| p.as_array_mut()) {
            Some(a) if !a.is_empty() => {
                a.clear();
                true
            }
            _ => false,
        },
        MEdit::ArrayDuplicated { ptr } => match m.pointer_mut(ptr).and_then(|p| p.as_array_mut()) {
            Some(a) if !a.is_empty() => {
                let c = a.clone();
                a.extend(c);
                true
            }
            _ => false,
        },
        MEdit::ArrayTruncated { ptr } => match m.pointer_mut(ptr).and_then(|p| p.as_array_mut()) {
            Some(a) if a.len() >= 2 => {
                let n = a.len() / 2;
                a.truncate(n);
                true
            }
            _ => false,
        },
        MEdit::IdRedirected { ptr, to } => {
            let new = match to.as_str() {
                "nil" => NIL.to_string(),
                "fresh" => fresh_id(serial.wrapping_mul(7919).wrapping_add(13)),
                // a valid link, but to ANOTHER element of the right collection (the element
                // after the current target, cyclically): the model stays closed
                "sibling" => {
                    let name = match link_target_collection(ptr) {
                        Some(n) => n,
                        None => return false,
                    };
                    let path = match closure::COLLECTIONS.iter().find(|c| c.0 == name) {
                        Some((_, p)) => *p,
                        None => return false,
                    };
                    let cur = m.pointer(ptr).and_then(|v| v.as_str()).unwrap_or("").to_string();
                    let ids: Vec<String> = closure::collection(m, path).iter().filter_map(|e| e.get("id").and_then(|v| v.as_str()).map(|s| s.to_string())).collect();
                    if ids.len() < 2 {
                        return false;
                    }
                    let pos = ids.iter().position(|i| *i == cur).unwrap_or(0);
                    ids[(pos + 1) % ids.len()].clone()
                }
                t if t.starts_with("other:") => {
                    // first id of the named collection (which must not be the link's own target)
                    let name = &t[6..];
                    if link_target_collection(ptr) == Some(name) {
                        return false;
                    }
                    match closure::COLLECTIONS.iter().find(|c| c.0 == name) {
                        Some((_, path)) => match closure::collection(m, path).first().and_then(|e| e.get("id")).and_then(|v| v.as_str()) {
                            Some(id) => id.to_string(),
                            None => return false,
                        },
                        None => return false,
                    }
                }
                _ => match other_collection_id(m, ptr) {
                    Some(id) => id,
                    None => return false,
                },
            };
            match m.pointer_mut(ptr) {
                Some(v) if v.as_str().map(is_uuid).unwrap_or(false) => {
                    if v.as_str() == Some(new.as_str()) {
                        return false;
                    }
                    *v = json!(new);
                    true
                }
                _ => false,
            }
        }
        MEdit::NumberZeroed { ptr } => match m.pointer_mut(ptr) {
            Some(v) if v.is_number() && v.as_f64() != Some(0.0) => {
                *v = if v.is_f64() { json!(0.0) } else { json!(0) };
                true
            }
            _ => false,
        },
        MEdit::NumberNegated { ptr } => match m.pointer_mut(ptr) {
            Some(v) if v.is_number() && v.as_f64() != Some(0.0) => {
                if let Some(i) = v.as_i64() {
                    *v = json!(-i);
                } else if let Some(f) = v.as_f64() {
                    *v = json!(-f);
                } else {
                    return false;
                }
                true
            }
            _ => false,
        },
        MEdit::NumberNudged { ptr, delta } => match m.pointer_mut(ptr) {
            Some(v) if v.is_f64() => {
                *v = json!(v.as_f64().unwrap_or(0.0) + delta);
                true
            }
            _ => false,
        },
        MEdit::AddSpace { n } => {
            push_to(m, &["spaces"], json!({"id": fresh_id(0x1000 + *n as u64), "name": format!("Espacio {}", n), "height": 3.0, "loads": null, "thermostat": null}));
            true
        }
        MEdit::AddWallCons { n } => {
            let mat = fresh_id(0x2000 + *n as u64);
            push_to(m, &["cons", "materials"], json!({"id": mat, "name": format!("Material {}", n), "conductivity": 0.5, "density": 1000.0, "specific_heat": 1000.0}));
            push_to(m, &["cons", "wallcons"], json!({"id": fresh_id(0x3000 + *n as u64), "name": format!("Construcción {}", n), "layers": [{"material": mat, "e": 0.25}], "absorptance": 0.6}));
            true
        }
        MEdit::AddWinCons { n } => {
            let g = fresh_id(0x4000 + *n as u64);
            let f = fresh_id(0x5000 + *n as u64);
            push_to(m, &["cons", "glasses"], json!({"id": g, "name": format!("Vidrio {}", n), "u_value": 2.8, "g_gln": 0.75}));
            push_to(m, &["cons", "frames"], json!({"id": f, "name": format!("Marco {}", n), "u_value": 3.2, "absorptivity": 0.6}));
            push_to(m, &["cons", "wincons"], json!({"id": fresh_id(0x6000 + *n as u64), "name": format!("Hueco tipo {}", n), "glass": g, "frame": f, "f_f": 0.2, "delta_u": 0.0, "c_100": 27.0}));
            true
        }
        MEdit::AddWall { n, space, cons, with_geometry, bounds, tilt } => {
            let s = id_at(m, "spaces", *space);
            let c = id_at(m, "wallcons", *cons);
            let k = *n as f64;
            let geometry = if *with_geometry {
                json!({"tilt": tilt, "azimuth": (k * 90.0) % 360.0 - 180.0, "position": [k * 0.5, 0.0, 0.0], "polygon": [[0.0, 0.0], [4.0, 0.0], [4.0, 3.0], [0.0, 3.0]]})
            } else {
                json!({"tilt": tilt, "azimuth": 0.0, "position": null, "polygon": []})
            };
            push_to(m, &["walls"], json!({"id": fresh_id(0x7000 + *n as u64), "name": format!("Opaco {}", n), "bounds": bounds, "cons": c, "space": s, "geometry": geometry}));
            true
        }
        MEdit::AddWindow { n, wall, cons, setback, with_position } => {
            let w = id_at(m, "walls", *wall);
            let c = id_at(m, "wincons", *cons);
            let pos = if *with_position { json!([1.0, 1.0]) } else { Value::Null };
            push_to(m, &["windows"], json!({"id": fresh_id(0x8000 + *n as u64), "name": format!("Hueco {}", n), "cons": c, "wall": w, "geometry": {"position": pos, "height": 1.2, "width": 1.5, "setback": setback}}));
            true
        }
        MEdit::AddShade { n } => {
            push_to(m, &["shades"], json!({"id": fresh_id(0x9000 + *n as u64), "name": format!("Sombra {}", n), "geometry": {"tilt": 90.0, "azimuth": 0.0, "position": [0.0, -3.0, 0.0], "polygon": [[0.0, 0.0], [6.0, 0.0], [6.0, 5.0], [0.0, 5.0]]}}));
            true
        }
        MEdit::AddBridge { n, l } => {
            push_to(m, &["thermal_bridges"], json!({"id": fresh_id(0xa000 + *n as u64), "name": format!("PT {}", n), "kind": "GENERIC", "l": l, "psi": 0.5}));
            true
        }
        MEdit::DeleteElement { coll, idx } => {
            let path = match closure::COLLECTIONS.iter().find(|c| c.0 == coll.as_str()) {
                Some(c) => c.1,
                None => return false,
            };
            let ptr = format!("/{}", path.join("/"));
            match m.pointer_mut(&ptr).and_then(|p| p.as_array_mut()) {
                Some(a) if !a.is_empty() => {
                    let i = idx % a.len();
                    a.remove(i);
                    true
                }
                _ => false,
            }
        }
        MEdit::SetClimate { zone } => {
            if !m.is_object() {
                *m = json!({});
            }
            let o = m.as_object_mut().unwrap();
            let meta = o.entry("meta").or_insert_with(default_meta);
            if let Some(mo) = meta.as_object_mut() {
                mo.insert("climate".into(), json!(zone));
                true
            } else {
                false
            }
        }
        MEdit::SetMeta { key, value } => {
            if !m.is_object() {
                *m = json!({});
            }
            let o = m.as_object_mut().unwrap();
            let meta = o.entry("meta").or_insert_with(default_meta);
            if let Some(mo) = meta.as_object_mut() {
                mo.insert(key.clone(), value.clone());
                true
            } else {
                false
            }
        }
        MEdit::PlaceWindow { idx, x, y } => {
            match m.pointer_mut("/windows").and_then(|w| w.as_array_mut()) {
                Some(a) if !a.is_empty() => {
                    let i = idx % a.len();
                    match a[i].get_mut("geometry").and_then(|g| g.as_object_mut()) {
                        Some(g) => {
                            g.insert("position".into(), json!([x, y]));
                            true
                        }
                        None => false,
                    }
                }
                _ => false,
            }
        }
        MEdit::MoveBuildingZ { dz, walls_to_ground } => {
            let mut below: std::collections::HashSet<String> = Default::default();
            let mut any = false;
            if let Some(a) = m.pointer_mut("/spaces").and_then(|w| w.as_array_mut()) {
                for sp in a.iter_mut() {
                    let z = sp.get("z").and_then(|z| z.as_f64()).unwrap_or(0.0) + dz;
                    let z = (z * 1000.0).round() / 1000.0;
                    if let Some(o) = sp.as_object_mut() {
                        o.insert("z".into(), json!(z));
                        any = true;
                        if z < 0.0 {
                            if let Some(id) = o.get("id").and_then(|i| i.as_str()) {
                                below.insert(id.to_string());
                            }
                        }
                    }
                }
            }
            let with_windows: std::collections::HashSet<String> = m
                .pointer("/windows")
                .and_then(|w| w.as_array())
                .map(|a| a.iter().filter_map(|w| w.get("wall").and_then(|x| x.as_str()).map(|x| x.to_string())).collect())
                .unwrap_or_default();
            for coll in ["/walls", "/shades"] {
                if let Some(a) = m.pointer_mut(coll).and_then(|w| w.as_array_mut()) {
                    for w in a.iter_mut() {
                        if let Some(p) = w.pointer_mut("/geometry/position").and_then(|p| p.as_array_mut()) {
                            if p.len() == 3 {
                                let z = p[2].as_f64().unwrap_or(0.0) + dz;
                                p[2] = json!((z * 1000.0).round() / 1000.0);
                            }
                        }
                        if *walls_to_ground && coll == "/walls" {
                            let tilt = w.pointer("/geometry/tilt").and_then(|t| t.as_f64()).unwrap_or(90.0);
                            let in_below = w.get("space").and_then(|s| s.as_str()).map(|s| below.contains(s)).unwrap_or(false);
                            let id = w.get("id").and_then(|s| s.as_str()).unwrap_or("").to_string();
                            if in_below && (60.0..=120.0).contains(&tilt) && w.get("bounds").and_then(|b| b.as_str()) == Some("EXTERIOR") && !with_windows.contains(&id) {
                                if let Some(o) = w.as_object_mut() {
                                    o.insert("bounds".into(), json!("GROUND"));
                                }
                            }
                        }
                    }
                }
            }
            any
        }
        MEdit::SetAll { ptr, key, value, only_if } => {
            let mut any = false;
            if let Some(a) = m.pointer_mut(ptr).and_then(|w| w.as_array_mut()) {
                for e in a.iter_mut() {
                    if let Some((k, v)) = only_if {
                        if e.get(k) != Some(v) {
                            continue;
                        }
                    }
                    if let Some(o) = e.as_object_mut() {
                        o.insert(key.clone(), value.clone());
                        any = true;
                    }
                }
            }
            any
        }
        MEdit::ShareIdAcross { a, b } => {
            // a == "nil": the element of `b` gets the nil id as its OWN id (it exists, so links
            // to it are intact)
            let pa = match closure::COLLECTIONS.iter().find(|c| c.0 == a.as_str() || a == "nil") {
                Some((_, p)) => *p,
                None => return false,
            };
            let pb = match closure::COLLECTIONS.iter().find(|c| c.0 == b.as_str()) {
                Some((_, p)) => *p,
                None => return false,
            };
            let ida = if a == "nil" {
                NIL.to_string()
            } else {
                match closure::collection(m, pa).first().and_then(|e| e.get("id")).and_then(|v| v.as_str()) {
                    Some(i) => i.to_string(),
                    None => return false,
                }
            };
            let idb = match closure::collection(m, pb).first().and_then(|e| e.get("id")).and_then(|v| v.as_str()) {
                Some(i) => i.to_string(),
                None => return false,
            };
            if ida == idb || closure::collection(m, pb).iter().any(|e| e.get("id").and_then(|v| v.as_str()) == Some(ida.as_str())) {
                return false;
            }
            // every link whose target collection is `b` and that points at idb follows
            let mut link_ptrs: Vec<String> = vec![];
            fn walk(v: &Value, path: &mut String, out: &mut Vec<(String, String)>) {
                match v {
                    Value::String(s) => out.push((path.clone(), s.clone())),
                    Value::Array(a) => {
                        for (i, e) in a.iter().enumerate() {
                            let l = path.len();
                            path.push_str(&format!("/{}", i));
                            walk(e, path, out);
                            path.truncate(l);
                        }
                    }
                    Value::Object(o) => {
                        for (k, e) in o {
                            let l = path.len();
                            path.push('/');
                            path.push_str(k);
                            walk(e, path, out);
                            path.truncate(l);
                        }
                    }
                    _ => {}
                }
            }
            let mut strs = vec![];
            walk(m, &mut String::new(), &mut strs);
            for (p, val) in strs {
                if val == idb && link_target_collection(&p) == Some(b.as_str()) {
                    link_ptrs.push(p);
                }
            }
            let id_ptr = format!("/{}/0/id", pb.join("/"));
            match m.pointer_mut(&id_ptr) {
                Some(v) => *v = json!(ida),
                None => return false,
            }
            for p in link_ptrs {
                if let Some(v) = m.pointer_mut(&p) {
                    *v = json!(ida);
                }
            }
            true
        }
        MEdit::ScaleAll { gptr, factor } => {
            let mut ptrs: Vec<String> = vec![];
            crate::closure::walk_numbers(m, &mut String::new(), &mut |p, _| {
                if generic(p) == *gptr {
                    ptrs.push(p.to_string());
                }
            });
            for p in &ptrs {
                if let Some(v) = m.pointer_mut(p) {
                    if let Some(x) = v.as_f64() {
                        *v = json!(((x * factor) * 1.0e6).round() / 1.0e6);
                    }
                }
            }
            !ptrs.is_empty()
        }
        MEdit::SetValue { ptr, value } => match m.pointer_mut(ptr) {
            Some(v) => {
                *v = value.clone();
                true
            }
            None => false,
        },
        MEdit::SetKey { ptr, key, value } => match m.pointer_mut(ptr).and_then(|o| o.as_object_mut()) {
            Some(o) => {
                let v = if value.as_str() == Some("<fresh>") { json!(fresh_id(serial.wrapping_mul(104729).wrapping_add(7))) } else { value.clone() };
                o.insert(key.clone(), v);
                true
            }
            None => false,
        },
        MEdit::ScaleNumber { ptr, factor } => match m.pointer_mut(ptr) {
            Some(v) if v.is_number() => {
                *v = json!(v.as_f64().unwrap_or(0.0) * factor);
                true
            }
            _ => false,
        },
        MEdit::RenameAllNames => {
            fn walk(v: &mut Value) {
                match v {
                    Value::Object(o) => {
                        if let Some(Value::String(n)) = o.get_mut("name") {
                            *n = format!("{} (copia)", n);
                        }
                        for (_, c) in o.iter_mut() {
                            walk(c);
                        }
                    }
                    Value::Array(a) => a.iter_mut().for_each(walk),
                    _ => {}
                }
            }
            // the project name in meta is a name too
            walk(m);
            true
        }
        MEdit::RemapAllIds => {
            fn walk(v: &mut Value) {
                match v {
                    Value::String(s) if is_uuid(s) && s != NIL => {
                        let h = format!("{:x}", md5::compute(format!("remap:{}", s).as_bytes()));
                        *s = format!("{}-{}-{}-{}-{}", &h[0..8], &h[8..12], &h[12..16], &h[16..20], &h[20..32]);
                    }
                    Value::Object(o) => {
                        // overrides are keyed by id
                        let keys: Vec<String> = o.keys().filter(|k| is_uuid(k)).cloned().collect();
                        for k in keys {
                            if let Some(val) = o.remove(&k) {
                                let h = format!("{:x}", md5::compute(format!("remap:{}", k).as_bytes()));
                                let nk = format!("{}-{}-{}-{}-{}", &h[0..8], &h[8..12], &h[12..16], &h[16..20], &h[20..32]);
                                o.insert(nk, val);
                            }
                        }
                        for (_, c) in o.iter_mut() {
                            walk(c);
                        }
                    }
                    Value::Array(a) => a.iter_mut().for_each(walk),
                    _ => {}
                }
            }
            walk(m);
            true
        }
    }
}

/// Every single structural edit of every node of a model tree (C14 fault space).
pub fn enumerate_single(m: &Value) -> Vec<MEdit> {
    let mut out = vec![];
    fn walk(v: &Value, ptr: &mut String, parent_is_obj: bool, parent_is_arr: bool, out: &mut Vec<MEdit>) {
        if !ptr.is_empty() {
            if parent_is_obj {
                out.push(MEdit::KeyDeleted { ptr: ptr.clone() });
            }
            if parent_is_arr {
                out.push(MEdit::ItemDeleted { ptr: ptr.clone() });
            }
        }
        match v {
            Value::Object(o) => {
                for (k, c) in o {
                    let l = ptr.len();
                    ptr.push('/');
                    ptr.push_str(&k.replace('~', "~0").replace('/', "~1"));
                    walk(c, ptr, true, false, out);
                    ptr.truncate(l);
                }
            }
            Value::Array(a) => {
                if !a.is_empty() {
                    out.push(MEdit::ArrayEmptied { ptr: ptr.clone() });
                    out.push(MEdit::ArrayDuplicated { ptr: ptr.clone() });
                }
                if a.len() >= 2 {
                    out.push(MEdit::ArrayTruncated { ptr: ptr.clone() });
                }
                for (i, c) in a.iter().enumerate() {
                    let l = ptr.len();
                    ptr.push_str(&format!("/{}", i));
                    walk(c, ptr, false, true, out);
                    ptr.truncate(l);
                }
            }
            Value::String(s) => {
                if is_uuid(s) {
                    for to in ["nil", "fresh", "other"] {
                        out.push(MEdit::IdRedirected { ptr: ptr.clone(), to: to.into() });
                    }
                }
            }
            Value::Number(n) => {
                if n.as_f64() != Some(0.0) {
                    out.push(MEdit::NumberZeroed { ptr: ptr.clone() });
                    out.push(MEdit::NumberNegated { ptr: ptr.clone() });
                }
                if n.is_f64() {
                    out.push(MEdit::NumberNudged { ptr: ptr.clone(), delta: -0.000001 });
                    out.push(MEdit::NumberNudged { ptr: ptr.clone(), delta: 0.000001 });
                    // magnitudes: a value a billion times larger / smaller (still finite in f32)
                    if n.as_f64() != Some(0.0) {
                        out.push(MEdit::ScaleNumber { ptr: ptr.clone(), factor: 1.0e9 });
                        out.push(MEdit::ScaleNumber { ptr: ptr.clone(), factor: 1.0e-9 });
                    }
                }
            }
            _ => {}
        }
    }
    let mut p = String::new();
    walk(m, &mut p, false, false, &mut out);
    out
}

pub const CLIMATES: &[&str] = &[
    "A1c", "A2c", "A3c", "A4c", "Alfa1c", "Alfa2c", "Alfa3c", "Alfa4c", "B1c", "B2c", "B3c", "B4c", "C1c", "C2c",
    "C3c", "C4c", "D1c", "D2c", "D3c", "E1c", "A3", "A4", "B3", "B4", "C1", "C2", "C3", "C4", "D1", "D2", "D3", "E1",
];

/// A seeded editor session starting from the empty model: 1..12 operations.
pub fn editor_session(rng: &mut Rng) -> Vec<MEdit> {
    let n = rng.range(1, 12);
    let mut ops = vec![];
    let mut serial = 0u32;
    for _ in 0..n {
        serial += 1;
        let r = rng.below(100);
        let opt = |rng: &mut Rng| if rng.chance(4, 5) { Some(rng.below(4)) } else { None };
        let op = if r < 14 {
            MEdit::AddSpace { n: serial }
        } else if r < 24 {
            MEdit::AddWallCons { n: serial }
        } else if r < 32 {
            MEdit::AddWinCons { n: serial }
        } else if r < 56 {
            MEdit::AddWall {
                n: serial,
                space: opt(rng),
                cons: opt(rng),
                with_geometry: rng.chance(5, 6),
                bounds: rng.pick(&["EXTERIOR", "EXTERIOR", "GROUND", "INTERIOR", "ADIABATIC"]).to_string(),
                tilt: *rng.pick(&[90.0f32, 90.0, 0.0, 180.0, 45.0]),
            }
        } else if r < 70 {
            MEdit::AddWindow {
                n: serial,
                wall: opt(rng),
                cons: opt(rng),
                setback: *rng.pick(&[0.0f32, 0.0, 0.2, 0.5]),
                with_position: rng.chance(3, 4),
            }
        } else if r < 76 {
            MEdit::PlaceWindow {
                idx: rng.below(3),
                x: *rng.pick(&[0.0f32, 0.0, 0.5, 1.0]),
                y: *rng.pick(&[0.0f32, 0.0, 0.5, 1.0]),
            }
        } else if r < 81 {
            MEdit::AddShade { n: serial }
        } else if r < 86 {
            MEdit::AddBridge { n: serial, l: *rng.pick(&[0.0f32, 4.0, 12.5]) }
        } else if r < 93 {
            MEdit::DeleteElement {
                coll: rng.pick(&["spaces", "walls", "windows", "wallcons", "wincons", "materials", "glasses", "frames"]).to_string(),
                idx: rng.below(4),
            }
        } else if r < 97 {
            MEdit::SetClimate { zone: rng.pick(CLIMATES).to_string() }
        } else {
            let (k, v) = match rng.below(3) {
                0 => ("global_ventilation_l_s", json!(30.0)),
                1 => ("is_dwelling", json!(true)),
                _ => ("n50_test_ach", json!(3.5)),
            };
            MEdit::SetMeta { key: k.to_string(), value: v }
        };
        ops.push(op);
    }
    ops
}

/// Fixed minimal models built element by element (the seed-independent part of the
/// "minimal models" pool): each entry is an editor session from the empty model.
pub fn minimal_sessions() -> Vec<(&'static str, Vec<MEdit>)> {
    let wall = |n: u32, space: Option<usize>, cons: Option<usize>| MEdit::AddWall {
        n,
        space,
        cons,
        with_geometry: true,
        bounds: "EXTERIOR".into(),
        tilt: 90.0,
    };
    let win = |n: u32, wall: Option<usize>, cons: Option<usize>, setback: f32| MEdit::AddWindow {
        n,
        wall,
        cons,
        setback,
        with_position: true,
    };
    vec![
        ("empty", vec![]),
        ("space", vec![MEdit::AddSpace { n: 1 }]),
        ("space+wall_unlinked_cons", vec![MEdit::AddSpace { n: 1 }, wall(2, Some(0), None)]),
        ("space+cons+wall", vec![MEdit::AddSpace { n: 1 }, MEdit::AddWallCons { n: 2 }, wall(3, Some(0), Some(0))]),
        (
            "space+cons+wall+window_setback0",
            vec![MEdit::AddSpace { n: 1 }, MEdit::AddWallCons { n: 2 }, wall(3, Some(0), Some(0)), MEdit::AddWinCons { n: 4 }, win(5, Some(0), Some(0), 0.0)],
        ),
        (
            "space+cons+wall+window_setback",
            vec![MEdit::AddSpace { n: 1 }, MEdit::AddWallCons { n: 2 }, wall(3, Some(0), Some(0)), MEdit::AddWinCons { n: 4 }, win(5, Some(0), Some(0), 0.3)],
        ),
        (
            "two_walls+window+shade",
            vec![
                MEdit::AddSpace { n: 1 },
                MEdit::AddWallCons { n: 2 },
                wall(3, Some(0), Some(0)),
                wall(4, Some(0), Some(0)),
                MEdit::AddWinCons { n: 5 },
                win(6, Some(0), Some(0), 0.0),
                MEdit::AddShade { n: 7 },
            ],
        ),
        (
            "window_added_then_placed",
            vec![
                MEdit::AddSpace { n: 1 },
                MEdit::AddWallCons { n: 2 },
                wall(3, Some(0), Some(0)),
                MEdit::AddWinCons { n: 4 },
                MEdit::AddWindow { n: 5, wall: Some(0), cons: Some(0), setback: 0.0, with_position: false },
                MEdit::PlaceWindow { idx: 0, x: 0.0, y: 0.0 },
                MEdit::PlaceWindow { idx: 0, x: 1.0, y: 1.0 },
            ],
        ),
        (
            "south_wall_window_added_then_placed",
            vec![
                MEdit::AddSpace { n: 1 },
                MEdit::AddWallCons { n: 2 },
                wall(4, Some(0), Some(0)),
                MEdit::AddWinCons { n: 5 },
                MEdit::AddWindow { n: 6, wall: Some(0), cons: Some(0), setback: 0.2, with_position: false },
                MEdit::PlaceWindow { idx: 0, x: 0.0, y: 0.0 },
            ],
        ),
        ("window_without_wall", vec![MEdit::AddWinCons { n: 1 }, win(2, None, Some(0), 0.0)]),
        ("wall_without_space", vec![MEdit::AddWallCons { n: 1 }, wall(2, None, Some(0))]),
        (
            "dwelling_box",
            vec![
                MEdit::SetMeta { key: "is_dwelling".into(), value: json!(true) },
                MEdit::SetMeta { key: "global_ventilation_l_s".into(), value: json!(30.0) },
                MEdit::AddSpace { n: 1 },
                MEdit::AddWallCons { n: 2 },
                wall(3, Some(0), Some(0)),
                MEdit::AddWall { n: 4, space: Some(0), cons: Some(0), with_geometry: true, bounds: "EXTERIOR".into(), tilt: 0.0 },
                MEdit::AddWall { n: 5, space: Some(0), cons: Some(0), with_geometry: true, bounds: "GROUND".into(), tilt: 180.0 },
            ],
        ),
    ]
}
