//! Inventory of the files shipped with the repository; everything is read from the
//! working tree at run time (no golden copies in /verif).

use crate::panics::repo_root;
use std::path::{Path, PathBuf};

#[derive(Clone, Copy, Debug, PartialEq, Eq, Hash, PartialOrd, Ord)]
pub enum FileKind {
    Ctehexml,
    Cte,
    Kyg,
    Tbl,
}

impl FileKind {
    pub fn as_str(&self) -> &'static str {
        match self {
            FileKind::Ctehexml => "ctehexml",
            FileKind::Cte => "cte",
            FileKind::Kyg => "kyg",
            FileKind::Tbl => "tbl",
        }
    }
}

#[derive(Clone, Debug)]
pub struct CorpusFile {
    pub kind: FileKind,
    /// path relative to the repository root
    pub rel: String,
    /// decoded text (utf-8 for ctehexml, latin-1 for the rest, as the library decodes them)
    pub text: String,
}

pub fn tests_dir() -> PathBuf {
    Path::new(&repo_root()).join("hulc_tests/tests")
}

pub fn latin1_to_string(bytes: &[u8]) -> String {
    bytes.iter().map(|&b| b as char).collect()
}

pub fn string_to_latin1(s: &str) -> Vec<u8> {
    s.chars()
        .map(|c| if (c as u32) < 256 { c as u32 as u8 } else { b'?' })
        .collect()
}

fn sorted_dir(p: &Path) -> Vec<PathBuf> {
    let mut v: Vec<PathBuf> = match std::fs::read_dir(p) {
        Ok(rd) => rd.filter_map(|e| e.ok().map(|e| e.path())).collect(),
        Err(_) => vec![],
    };
    v.sort();
    v
}

fn rel_of(p: &Path) -> String {
    let root = repo_root();
    p.strip_prefix(&root)
        .map(|r| r.to_string_lossy().to_string())
        .unwrap_or_else(|_| p.to_string_lossy().to_string())
}

/// The shipped HULC project directories (those holding a .ctehexml file), sorted.
pub fn project_dirs() -> Vec<PathBuf> {
    sorted_dir(&tests_dir())
        .into_iter()
        .filter(|d| d.is_dir())
        .filter(|d| {
            sorted_dir(d)
                .iter()
                .any(|f| f.extension().map(|e| e == "ctehexml").unwrap_or(false))
        })
        .collect()
}

pub fn ctehexml_of(dir: &Path) -> Option<PathBuf> {
    sorted_dir(dir)
        .into_iter()
        .find(|f| f.extension().map(|e| e == "ctehexml").unwrap_or(false))
}

pub fn load(kinds: &[FileKind]) -> Vec<CorpusFile> {
    let mut out = vec![];
    for d in project_dirs() {
        for f in sorted_dir(&d) {
            let name = f.file_name().unwrap().to_string_lossy().to_string();
            let kind = if name.ends_with(".ctehexml") {
                FileKind::Ctehexml
            } else if name == "KyGananciasSolares.txt" {
                FileKind::Kyg
            } else if name == "NewBDL_O.tbl" {
                FileKind::Tbl
            } else {
                continue;
            };
            if !kinds.contains(&kind) {
                continue;
            }
            let bytes = std::fs::read(&f).expect("read corpus file");
            let text = match kind {
                FileKind::Ctehexml => String::from_utf8_lossy(&bytes).to_string(),
                _ => latin1_to_string(&bytes),
            };
            out.push(CorpusFile {
                kind,
                rel: rel_of(&f),
                text,
            });
        }
    }
    if kinds.contains(&FileKind::Cte) {
        for f in sorted_dir(&tests_dir().join("liderdata")) {
            let name = f.file_name().unwrap().to_string_lossy().to_lowercase();
            if !name.ends_with(".cte") {
                continue;
            }
            let bytes = std::fs::read(&f).expect("read corpus file");
            out.push(CorpusFile {
                kind: FileKind::Cte,
                rel: rel_of(&f),
                text: latin1_to_string(&bytes),
            });
        }
    }
    out
}

/// Shipped model JSON files (bemodel/tests/data/*.json that are models, not results).
pub fn model_files() -> Vec<(String, String)> {
    let d = Path::new(&repo_root()).join("bemodel/tests/data");
    sorted_dir(&d)
        .into_iter()
        .filter(|f| {
            let n = f.file_name().unwrap().to_string_lossy().to_string();
            n.ends_with(".json") && !n.ends_with("_results.json")
        })
        .map(|f| {
            (
                rel_of(&f),
                std::fs::read_to_string(&f).expect("read model file"),
            )
        })
        .collect()
}

/// (project .ctehexml, shipped reference model) pairs, as the Makefile regenerates them.
pub fn reference_pairs() -> Vec<(String, String)> {
    let pairs = [
        ("cubo/cubo.ctehexml", "cubo.json"),
        ("e4h_medianeras/e4h_medianeras.ctehexml", "e4h_medianeras.json"),
        ("casoA/casoa.ctehexml", "caso_a.json"),
        ("ejemploviv_unif/ejemploviv_unif.ctehexml", "ejemploviv_unif.json"),
        (
            "ejemplo_gt_aerotermia/ejemplo_gt_aerotermia.ctehexml",
            "ejemplo_gt_aerotermia.json",
        ),
        (
            "cubo_gt_caldera_radiadores/cubo_gt_caldera_radiadores.ctehexml",
            "cubo_gt_caldera_radiadores.json",
        ),
    ];
    let root = repo_root();
    pairs
        .iter()
        .filter_map(|(p, m)| {
            let pp = Path::new(&root).join("hulc_tests/tests").join(p);
            let mm = Path::new(&root).join("bemodel/tests/data").join(m);
            if pp.exists() && mm.exists() {
                Some((rel_of(&pp), rel_of(&mm)))
            } else {
                None
            }
        })
        .collect()
}

pub fn read_rel(rel: &str) -> std::io::Result<Vec<u8>> {
    // virtual files: projects printed by the generator
    if let Some(seed) = crate::projgen::seed_of(rel) {
        return Ok(crate::projgen::generate(seed).into_bytes());
    }
    std::fs::read(Path::new(&repo_root()).join(rel))
}

/// Projects printed by the verifier's generator (virtual files `gen/<seed>/gen<seed>.ctehexml`).
pub fn generated(seeds: impl Iterator<Item = u64>) -> Vec<CorpusFile> {
    seeds
        .map(|s| CorpusFile {
            kind: FileKind::Ctehexml,
            rel: crate::projgen::file_rel(s),
            text: crate::projgen::generate(s),
        })
        .collect()
}
