//! Two or three real threads compute the indicators of small models concurrently; every
//! result must equal the single-threaded result computed first.  Under Miri every
//! preemption is Miri's (per -Zmiri-seed), and its data-race detector sees unsynchronised
//! shared state that has no hook point inside it.

use bemodel::Model;

const MODEL_A: &str = r#"{
 "meta": {"name": "micro", "is_new_building": true, "is_dwelling": true, "num_dwellings": 1, "climate": "D3", "global_ventilation_l_s": 30.0},
 "spaces": [{"id": "f0000000-0000-4000-8000-000000001001", "name": "E1", "height": 3.0, "loads": null, "thermostat": null}],
 "walls": [
  {"id": "f0000000-0000-4000-8000-000000007003", "name": "O1", "bounds": "EXTERIOR", "cons": "f0000000-0000-4000-8000-000000003002", "space": "f0000000-0000-4000-8000-000000001001",
   "geometry": {"tilt": 90.0, "azimuth": 0.0, "position": [0.0, 0.0, 0.0], "polygon": [[0.0, 0.0], [4.0, 0.0], [4.0, 3.0], [0.0, 3.0]]}},
  {"id": "f0000000-0000-4000-8000-000000007004", "name": "O2", "bounds": "EXTERIOR", "cons": "f0000000-0000-4000-8000-000000003002", "space": "f0000000-0000-4000-8000-000000001001",
   "geometry": {"tilt": 0.0, "azimuth": 0.0, "position": [0.0, 0.0, 3.0], "polygon": [[0.0, 0.0], [4.0, 0.0], [4.0, 4.0], [0.0, 4.0]]}}
 ],
 "windows": [{"id": "f0000000-0000-4000-8000-000000008006", "name": "H1", "cons": "f0000000-0000-4000-8000-000000006005", "wall": "f0000000-0000-4000-8000-000000007003",
   "geometry": {"position": [1.0, 1.0], "height": 1.2, "width": 1.5, "setback": 0.2}}],
 "shades": [{"id": "f0000000-0000-4000-8000-000000009007", "name": "S1", "geometry": {"tilt": 90.0, "azimuth": 0.0, "position": [0.0, -3.0, 0.0], "polygon": [[0.0, 0.0], [6.0, 0.0], [6.0, 5.0], [0.0, 5.0]]}}],
 "cons": {
  "wallcons": [{"id": "f0000000-0000-4000-8000-000000003002", "name": "C1", "layers": [{"material": "f0000000-0000-4000-8000-000000002002", "e": 0.25}], "absorptance": 0.6}],
  "wincons": [{"id": "f0000000-0000-4000-8000-000000006005", "name": "V1", "glass": "f0000000-0000-4000-8000-000000004005", "frame": "f0000000-0000-4000-8000-000000005005", "f_f": 0.2, "delta_u": 0.0, "c_100": 27.0}],
  "materials": [{"id": "f0000000-0000-4000-8000-000000002002", "name": "M1", "conductivity": 0.5, "density": 1000.0, "specific_heat": 1000.0}],
  "glasses": [{"id": "f0000000-0000-4000-8000-000000004005", "name": "G1", "u_value": 2.8, "g_gln": 0.75}],
  "frames": [{"id": "f0000000-0000-4000-8000-000000005005", "name": "F1", "u_value": 3.2, "absorptivity": 0.6}]
 }
}"#;

fn indicators(json: &str) -> serde_json::Value {
    let m = Model::from_json(json).expect("model loads");
    serde_json::to_value(m.energy_indicators()).expect("indicators to value")
}

fn main() {
    let nthreads: usize = std::env::args().nth(1).and_then(|s| s.parse().ok()).unwrap_or(2);
    // which phases to run: "all" (default), "conv" (conversion only), "calc" (everything else)
    let phases = std::env::args().nth(2).unwrap_or_else(|| "all".to_string());
    let run_conv = phases == "all" || phases == "conv";
    let run_calc = phases == "all" || phases == "calc";
    // a second model that differs only in climate zone and window set-back
    let model_b = MODEL_A.replace("\"D3\"", "\"A4\"").replace("\"setback\": 0.2", "\"setback\": 0.0");
    // a third model with a broken link: its indicators carry a checker warning, the others none
    let model_c = MODEL_A.replacen("\"cons\": \"f0000000-0000-4000-8000-000000003002\"", "\"cons\": \"f0000000-0000-4000-8000-0000000fffff\"", 1);
    let ref_a = indicators(MODEL_A);
    let ref_b = indicators(&model_b);
    let ref_c = indicators(&model_c);
    assert_ne!(ref_a, ref_b, "the two models must differ");
    assert!(ref_a["warnings"].as_array().map(|a| a.is_empty()).unwrap_or(false), "model A is closed");
    assert!(ref_c["warnings"].as_array().map(|a| !a.is_empty()).unwrap_or(false), "model C has a broken link");
    // phase 0b: the checker itself, concurrently on a closed and on a broken model
    {
        let closed = Model::from_json(MODEL_A).expect("loads");
        let broken = Model::from_json(&model_c).expect("loads");
        let want_closed = serde_json::to_value(bemodel::check(&closed)).unwrap();
        let want_broken = serde_json::to_value(bemodel::check(&broken)).unwrap();
        let mut hs = vec![];
        for t in 0..nthreads {
            let (m, want) = if t % 2 == 0 { (closed.clone(), want_closed.clone()) } else { (broken.clone(), want_broken.clone()) };
            hs.push(std::thread::spawn(move || {
                for i in 0..6 {
                    let got = serde_json::to_value(bemodel::check(&m)).unwrap();
                    assert_eq!(got, want, "thread {} call {}: check() differs from the single-threaded result", t, i);
                }
            }));
        }
        for h in hs {
            h.join().expect("checker thread panicked");
        }
    }
    // phase 0a: conversion of two small self-contained projects on concurrent threads (the
    // conversion path has no hook points at all, so only this tier interleaves inside it)
    if run_conv {
        use std::convert::TryFrom;
        const BDL: &str = include_str!("small_project.bdl");
        let bdl_b = BDL.replace("CONDUCTIVITY      =          0.667", "CONDUCTIVITY      =          0.5").replace("\"Aislante\"", "\"Aislante B\"");
        let convert = |text: &str| -> String {
            let data = hulc::bdl::Data::new(text).expect("small project parses");
            let d = hulc::ctehexml::CtehexmlData { bdldata: data, ..Default::default() };
            Model::try_from(&d).expect("small project converts").as_json().expect("json")
        };
        let want_a = convert(BDL);
        let want_b = convert(&bdl_b);
        assert_ne!(want_a, want_b);
        let mut hs = vec![];
        for t in 0..nthreads {
            let (text, want) = if t % 2 == 0 { (BDL.to_string(), want_a.clone()) } else { (bdl_b.clone(), want_b.clone()) };
            hs.push(std::thread::spawn(move || {
                for i in 0..1 {
                    let data = hulc::bdl::Data::new(&text).expect("small project parses");
                    let d = hulc::ctehexml::CtehexmlData { bdldata: data, ..Default::default() };
                    let got = Model::try_from(&d).expect("small project converts").as_json().expect("json");
                    assert_eq!(got, want, "thread {} conversion {}: differs from the single-threaded conversion", t, i);
                }
            }));
        }
        for h in hs {
            h.join().expect("conversion thread panicked");
        }
    }
    if !run_calc {
        println!("ctemiri ok ({} threads, {})", nthreads, phases);
        return;
    }
    // phase 0: the cheap public table look-ups the indicators are built on, many times, from
    // threads that ask for different climate zones (a torn or stale shared result shows here
    // with far fewer instructions per attempt than a whole indicator computation)
    {
        use bemodel::climatedata::{total_radiation_in_july_by_orientation, ClimateZone};
        let zones = [ClimateZone::D3, ClimateZone::A4, ClimateZone::E1];
        let refs: Vec<_> = zones.iter().map(total_radiation_in_july_by_orientation).collect();
        let mut hs = vec![];
        for t in 0..nthreads {
            let zone = zones[t % zones.len()];
            let want = refs[t % zones.len()].clone();
            hs.push(std::thread::spawn(move || {
                for i in 0..12 {
                    let got = total_radiation_in_july_by_orientation(&zone);
                    assert_eq!(got, want, "thread {} call {}: July totals differ from the single-threaded ones", t, i);
                }
            }));
        }
        for h in hs {
            h.join().expect("table look-up thread panicked");
        }
    }
    let mut handles = vec![];
    for t in 0..nthreads {
        let (json, want) = match t % 3 {
            0 => (MODEL_A.to_string(), ref_a.clone()),
            1 => (model_c.clone(), ref_c.clone()),
            _ => (model_b.clone(), ref_b.clone()),
        };
        handles.push(std::thread::spawn(move || {
            let got = indicators(&json);
            assert_eq!(got, want, "thread {}: concurrent result differs from the single-threaded one", t);
        }));
    }
    for h in handles {
        h.join().expect("thread panicked");
    }
    // and once more afterwards on the main thread (history)
    assert_eq!(indicators(MODEL_A), ref_a, "result after the concurrent phase differs");
    println!("ctemiri ok ({} threads)", nthreads);
}
