/* LD_PRELOAD seam: makes the per-process entropy (std HashMap/HashSet keys, Uuid::new_v4,
 * anything reading getrandom) and the wall clock a pure function of environment variables.
 *   VERIF_HASH_SEED=<u64>   getrandom()/syscall(SYS_getrandom) return a xorshift stream
 *   VERIF_FAKE_TIME=<secs>  CLOCK_REALTIME / time() / gettimeofday() start at that instant
 *                           and advance 1 ms per call
 * Unset variables leave the corresponding call untouched. */
#define _GNU_SOURCE
#include <dlfcn.h>
#include <stdarg.h>
#include <stdlib.h>
#include <string.h>
#include <sys/syscall.h>
#include <sys/time.h>
#include <sys/types.h>
#include <time.h>
#include <unistd.h>

static int inited = 0;
static long long mono_default = 0;
static int rnd_active = 0, time_active = 0;
static unsigned long long rnd_state = 0;
static long long fake_secs = 0;
static long long fake_calls = 0;
static long (*real_syscall)(long, ...) = 0;
static int (*real_clock_gettime)(clockid_t, struct timespec *) = 0;

static void init(void) {
    if (inited) return;
    const char *s = getenv("VERIF_HASH_SEED");
    if (s && *s) {
        rnd_active = 1;
        rnd_state = strtoull(s, 0, 10) * 0x9E3779B97F4A7C15ULL + 0x853C49E6748FEA9BULL;
        if (rnd_state == 0) rnd_state = 1;
    }
    const char *t = getenv("VERIF_FAKE_TIME");
    if (t && *t) {
        time_active = 1;
        fake_secs = strtoll(t, 0, 10);
    }
    const char *ma = getenv("VERIF_MONO_ALL_THREADS");
    const char *ms = getenv("VERIF_MONO_STEP_NS");
    if (ma && *ma && ms && *ms) mono_default = strtoll(ms, 0, 10);
    real_syscall = (long (*)(long, ...))dlsym(RTLD_NEXT, "syscall");
    real_clock_gettime = (int (*)(clockid_t, struct timespec *))dlsym(RTLD_NEXT, "clock_gettime");
    inited = 1;
}

static unsigned long long next64(void) {
    unsigned long long x = rnd_state;
    x ^= x >> 12;
    x ^= x << 25;
    x ^= x >> 27;
    rnd_state = x;
    return x * 0x2545F4914F6CDD1DULL;
}

static void fill(void *buf, size_t len) {
    unsigned char *p = (unsigned char *)buf;
    while (len > 0) {
        unsigned long long v = next64();
        size_t n = len < 8 ? len : 8;
        memcpy(p, &v, n);
        p += n;
        len -= n;
    }
}

ssize_t getrandom(void *buf, size_t len, unsigned int flags) {
    init();
    if (!rnd_active) return real_syscall(SYS_getrandom, buf, len, flags);
    fill(buf, len);
    return (ssize_t)len;
}

int getentropy(void *buf, size_t len) {
    init();
    if (!rnd_active) {
        long r = real_syscall(SYS_getrandom, buf, len, 0);
        return r < 0 ? -1 : 0;
    }
    fill(buf, len);
    return 0;
}

long syscall(long number, ...) {
    va_list ap;
    long a[6];
    int i;
    init();
    va_start(ap, number);
    for (i = 0; i < 6; i++) a[i] = va_arg(ap, long);
    va_end(ap);
    if (number == SYS_getrandom && rnd_active) {
        fill((void *)a[0], (size_t)a[1]);
        return a[1];
    }
    return real_syscall(number, a[0], a[1], a[2], a[3], a[4], a[5]);
}

static void fake_now(struct timespec *ts) {
    long long n = __sync_fetch_and_add(&fake_calls, 1);
    ts->tv_sec = fake_secs + n / 1000;
    ts->tv_nsec = (n % 1000) * 1000000L;
}

/* Monotonic clock of a slow or stalled machine: every read of a monotonic clock by a thread that
 * opted in (verifshim_mono_step, called by the simulator on the threads that run the system under
 * test) - or by every thread when VERIF_MONO_ALL_THREADS is set (the real tools, which have no
 * simulator threads) - is `step` nanoseconds later than the previous one. Off by default. */
static __thread long long mono_step = -1; /* -1 = take the process default */
static __thread long long mono_off = 0;

void verifshim_mono_step(long long ns) {
    mono_step = ns;
    mono_off = 0;
}

int clock_gettime(clockid_t clk, struct timespec *ts) {
    init();
    if (time_active && (clk == CLOCK_REALTIME || clk == CLOCK_REALTIME_COARSE)) {
        fake_now(ts);
        return 0;
    }
    int r = real_clock_gettime(clk, ts);
    if (r == 0 && (clk == CLOCK_MONOTONIC || clk == CLOCK_MONOTONIC_RAW || clk == CLOCK_MONOTONIC_COARSE || clk == CLOCK_BOOTTIME)) {
        long long step = mono_step >= 0 ? mono_step : mono_default;
        if (step > 0) {
            mono_off += step;
            long long ns = (long long)ts->tv_nsec + mono_off % 1000000000LL;
            ts->tv_sec += mono_off / 1000000000LL + ns / 1000000000LL;
            ts->tv_nsec = ns % 1000000000LL;
        }
    }
    return r;
}

time_t time(time_t *out) {
    struct timespec ts;
    clock_gettime(CLOCK_REALTIME, &ts);
    if (out) *out = ts.tv_sec;
    return ts.tv_sec;
}

int gettimeofday(struct timeval *tv, void *tz) {
    struct timespec ts;
    (void)tz;
    clock_gettime(CLOCK_REALTIME, &ts);
    if (tv) {
        tv->tv_sec = ts.tv_sec;
        tv->tv_usec = ts.tv_nsec / 1000;
    }
    return 0;
}
